"""C15 — runtime reconfiguration is atomic; the file reloader keeps the last good config."""
import re

from l4sa import q
from l4sa.core import AnchorMissing, ShapeUnrecognised, SwitchInfo, strip, deep_strip, walk, show, calls_in, cmp_nf, _block_places
from rules import anchors, common

CLAIMED = True
TECHNIQUE = "static analysis over type-checked MIR: single-snapshot-load dominance in Log::{log,enabled,flush}, snapshot immutability/ownership inventory, build-then-store ordering, lock-free delivery cone, reloader loop/edge reachability"
LEVEL_TEXT = """Static, all-paths decision of: (A1) each of Log::log/enabled/flush has exactly one ArcSwap::load site, outside any loop, and every access to the snapshot's fields (root, appender table, error handler) goes through that one guard; (A2) Logger holds one Arc<ArcSwap<snapshot>>, the snapshot owns tree and appender table, has no interior mutability of its own, its aggregate is built only in the constructor and the tree's mutator is called only from the constructor and itself; (A3) Handle::set_config builds a complete snapshot from the new config before the single store, which lies on every path to return; (A4) the delivery cone of Log::log (cut at dyn Append/Filter) acquires no lock, so a re-entrant set_config cannot self-deadlock; (A5) reloader control flow: in run the Err arm returns to the loop head and only Ok(None) leaves; in run_once set_config is dominated by the Ok edge of Format::parse and control-dependent on the text having changed, the unchanged-mtime/unchanged-text edges return Ok(Some(rate)) without reaching the handle, and the new rate is the parsed config's refresh_rate(). arc-swap's own guarantees, real interleavings and file-system timestamps are not decided. (A12) no un-discharged panic site in what the refresh thread itself runs (the loop, run_once, reading the file, the error reporter); parsing, building and the swap are inventoried under C14.K8 / C13.V4. (A6, cont.) the reloader polls the path it was given (no canonicalize/read_link); (A1, cont.) no function called from log/enabled/flush loads the configuration again; (A13) raw-to-runtime fidelity (C14.K7). (A12, cont.) the refresh thread is spawned on the default stack. (A14, A15) refresh_rate goes through humantime with its error mapped, and the visitor has no other entry point (C20.L6 / C14.K11 re-evaluated)."""
LEVEL_NOTE = "Trusted: rustc MIR/callee resolution; arc-swap (atomic swap, guard keeps the old snapshot alive, store does not wait on readers); std fs timestamps."
EXPLANATION = """Decided: A1 one snapshot per call, A2 immutable self-contained snapshot, A3 build-then-store, A4 no lock across delivery, A5 reloader loop and edges. Undecided: arc-swap internals, actual interleavings, file-system timestamp behaviour."""
DECIDED = ["A1 single load dominating all snapshot accesses", "A2 snapshot immutability/ownership", "A3 complete build before single store", "A4 lock-free delivery", "A5 reloader control flow", "A6 the reloader is started with the text that was loaded and a modification time read right beside it", "A7 changes detected through the path", "A8 remembered text is the text last read", "A9 whole-document parsers", "A10 the lossy build leaves no dangling reference (C13.V2 re-evaluated)"]
UNDECIDED = ["arc-swap internals", "real interleavings", "file-system timestamps"]
TRUSTED = ["rustc nightly MIR + Instance::try_resolve", "arc-swap", "std::fs metadata"]

RUN = "config::file::ConfigReloader::run"
RUN_ONCE = "config::file::ConfigReloader::run_once"
SET_CONFIG = "Handle::set_config"
PARSE = "config::file::Format::parse"


def snapshot_adt(p):
    lg = p.adt("Logger")
    fs = lg["variants"][0]["fields"]
    if len(fs) != 1:
        raise AnchorMissing("Logger: expected a single field, found %d" % len(fs))
    m = re.search(r"ArcSwapAny<alloc::sync::Arc<([A-Za-z_0-9:]+)>", fs[0]["ty"])
    if not m or m.group(1) not in p.adts:
        raise AnchorMissing("cannot find the snapshot type in %s" % fs[0]["ty"])
    return m.group(1), fs[0]


def run(ctx):
    configs = ["default", "full"] if ctx.tier == "quick" else ["default", "full", "single:console_appender"]
    for cfg in configs:
        run_cfg(ctx, ctx.prog(cfg), cfg)
    if ctx.tier == "thorough":
        from rules import witness
        witness.run_witnesses(ctx, "C15")



def _chain(e):
    """('a', 'b') for self.a.b (through derefs and transparent calls); None if e is not a field path of the first parameter"""
    e = deep_strip(e)
    names = []
    while e[0] == "field":
        names.append(e[2])
        e = deep_strip(e[1])
    while e[0] == "deref":
        e = deep_strip(e[1])
    if e == ("param", 1) and names:
        return tuple(reversed(names))
    return None


def _self_stores(f, chain):
    """assignments to self.<chain>, directly or through a reborrow of self (a helper spliced in takes `&mut *self`)"""
    def is_self(l_):
        e_ = deep_strip(f.local_expr(l_))
        alts_ = [a_ for a_ in (e_[1] if e_[0] == "phi" else (e_,)) if a_[0] != "partial"]     # stores through the reborrow are not values of it
        return l_ == 1 or (bool(alts_) and all(deep_strip(a_) in (("param", 1), ("deref", ("param", 1))) for a_ in alts_))
    out = []
    for b, i, st in f.assigns():
        names = tuple(e_["f"] for e_ in st["lhs"]["p"] if isinstance(e_, dict) and "f" in e_)
        if names == tuple(chain) and is_self(st["lhs"]["l"]):
            out.append((b, i, st))
    return out


def rule_one_snapshot(ctx, p, cfg, rid="A1"):
    """each logging call works on one snapshot of the configuration: tree, appender table and error handler come from a single load"""
    with ctx.rule(rid, "one snapshot per call", cfg) as r:
        snap, lf = snapshot_adt(p)
        for path in (anchors.LOG_LOG, anchors.LOG_ENABLED, anchors.LOG_FLUSH):
            f = p.fn_loops(path)
            name = path.rsplit("::", 1)[-1]
            loads = f.calls(anchors.LOAD)
            r.require(len(loads) == 1, "%s:single-load" % name, fn=f, detail="ArcSwap::load sites: %d" % len(loads))
            if len(loads) != 1:
                continue
            ld = loads[0]
            r.require(not f.in_loop(ld.block), "%s:load-not-in-loop" % name, fn=f, site=ld.at, detail="the snapshot is loaded once, outside loops")
            r.require(deep_strip(ld.arg(0)) == ("field", ("param", 1), lf["name"]), "%s:load-of-own-swap" % name, fn=f, site=ld.at, detail="load receiver %s" % show(ld.arg(0)))
            n_acc = 0
            bad = []
            rb = f.reachable_blocks()
            for b in f.blocks:
                if b["id"] not in rb:
                    continue
                for pl in _block_places(b):
                    if any(isinstance(e, dict) and e.get("adt") == snap for e in pl["p"]):
                        n_acc += 1
                        lv = f.lvalue(pl)
                        if not any(x[0] == "call" and x[1] == anchors.LOAD and x[3] == ld.block for x in walk(lv)):
                            bad.append("bb%d %s" % (b["id"], show(lv, 5)))
                        if not f.dominates(ld.block, b["id"]):
                            bad.append("bb%d not dominated by the load" % b["id"])
            r.require(n_acc >= 1 and not bad, "%s:fields-through-the-one-guard" % name, fn=f,
                      detail="%d snapshot field accesses, all through the single load; offending: %s" % (n_acc, bad))
            # no other way to the snapshot: no load_full / swap / clone of the Arc in these functions
            other = [c.callee for c in f.calls() if (c.callee or "").startswith("arc_swap::") and c.callee != anchors.LOAD]
            r.require(not other, "%s:no-other-arcswap-access" % name, fn=f, detail="other arc-swap calls: %s" % other)
            # ... nor through a function it calls: `if !self.enabled(..) { return }` in front of the load is a second snapshot
            via = []
            for c in f.calls():
                tgt = c.t.get("resolved") if c.t.get("resolved_local") else c.callee
                if tgt in p.fns and tgt != path:
                    sub = p.cone([tgt], cut_traits=("append::Append", "filter::Filter", "encode::Encode"))
                    if any(p.fns[x].calls(anchors.LOAD) or any((cc.callee or "").startswith("arc_swap::") for cc in p.fns[x].calls()) for x in sub if x in p.fns):
                        via.append(tgt)
            r.require(not via, "%s:no-load-through-a-callee" % name, fn=f, detail="no function called from %s loads the configuration again" % name,
                      fail_detail="%s also calls %s, which loads the configuration on its own: a reconfiguration between the two loads lets one call decide on two configurations" % (name, via))
        # in log(): root, appender table and handler all appear
        f = p.fn_loops(anchors.LOG_LOG)
        used = set()
        for b in f.blocks:
            for pl in _block_places(b):
                for e in pl["p"]:
                    if isinstance(e, dict) and e.get("adt") == snap:
                        used.add(e["f"])
        snap_fields = {x["name"] for x in p.adt(snap)["variants"][0]["fields"]}
        r.require(used == snap_fields, "log:uses-whole-snapshot", fn=f, detail="snapshot fields used in log(): %s of %s" % (sorted(used), sorted(snap_fields)))


def rule_reloader_flow(ctx, p, cfg, rid="A5"):
    """the refresh thread: errors keep it polling; a configuration is applied only after it parsed and only when the text changed; the
    unchanged-file shortcut is an exact equality of modification times"""
    with ctx.rule(rid, "reloader control flow", cfg) as r:
        f = p.fn(RUN)
        ro_ = f.call1(RUN_ONCE, "run_once")
        sl = f.call1("std::thread::functions::sleep", "thread::sleep")
        r.require(f.in_loop(ro_.block) and f.in_loop(sl.block), "polls-in-loop", fn=f, detail="sleep and run_once are inside the loop")
        outer = None
        for b in f.blocks:
            if b["term"]["k"] == "switch" and b["id"] in f.reachable_blocks():
                si = SwitchInfo(f, b["id"])
                e = strip(si.discr)
                if e[0] == "discr" and strip(e[1])[0] == "call" and strip(e[1])[1] == RUN_ONCE:
                    outer = si
        if outer is None:
            raise ShapeUnrecognised("no match on run_once's Result in run")
        et = outer.target_of("Err")
        rets = set(f.return_blocks())
        er = f.reach(et, avoid={ro_.block}, include_src=True)
        # Option values built on the way decide the loop test (`next = match .. { Err(e) => { report; Some(rate) } }; while let Some(..) = next`)
        okts_ = {(outer.b, t_) for lab_, t_ in outer.labelled_edges() if lab_ != "Err"}
        left_ = q.const_skipping_paths(f, outer.b, {ro_.block}, rets, cut_edges=okts_)
        r.require(et is not None and not left_ and ro_.block in f.reach(et, include_src=True), "err-keeps-polling", fn=f,
                  detail="from the Err arm the loop head is reached and return is not (before the next poll)")
        r.require(any(c.callee == "handle_error" or "handle" in (c.callee or "") for c in f.calls() if c.block in er), "err-is-reported", fn=f, detail="the error is handed to the crate's error reporter")
        okt = outer.target_of("Ok")
        # inner switch on the Option
        inner = None
        for b in f.blocks:
            if b["term"]["k"] == "switch" and b["id"] in f.reach(okt, include_src=True):
                si = SwitchInfo(f, b["id"])
                e = strip(si.discr)
                if e[0] == "discr" and any(x[0] == "as" and x[2] == "Ok" for x in walk(e)) and si.target_of("Some") is not None and si.target_of("None") is not None:
                    inner = si
        if inner is None:
            raise ShapeUnrecognised("no match on the Ok payload (Option<Duration>) in run")
        st, nt = inner.target_of("Some"), inner.target_of("None")
        r.require(not (f.reach(st, avoid={ro_.block}, include_src=True) & rets), "some-keeps-polling", fn=f, detail="Ok(Some(rate)) continues the loop")
        r.require(bool(f.reach(nt, avoid={ro_.block}, include_src=True) & rets), "none-stops", fn=f, detail="Ok(None) leaves the loop")
        rate_arg = ro_.arg(1)
        r.require(any(x[0] == "as" and x[2] == "Some" for x in walk(rate_arg)) and any(x == ("param", 2) for x in walk(rate_arg)), "rate-updated-from-result", fn=f,
                  detail="rate passed to run_once/sleep: %s" % show(rate_arg, 5))
        # run_once
        g = p.fn(RUN_ONCE)
        sc = g.call1(SET_CONFIG, "Handle::set_config")
        pr = g.call1(PARSE, "Format::parse")
        conds = g.conditions(sc.block)
        parse_ok = False
        changed = False
        for sb, si, al in conds:
            e = strip(si.discr)
            labs = {si.label(v) for v, _ in al}
            if e[0] == "discr" and any(x[0] == "call" and x[1] == PARSE for x in walk(e)) and any(x[0] == "call" and x[1].endswith("Try::branch") for x in walk(e)):
                parse_ok = labs == {"Continue"}
            if e[0] == "discr" and strip(e[1])[0] == "call" and strip(e[1])[1] == PARSE:
                parse_ok = labs == {"Ok"}
            nf = cmp_nf(si.discr, True in labs) if labs in ({True}, {False}) else None
            if nf and nf[0] == "Ne":
                a, b2 = deep_strip(nf[1]), deep_strip(nf[2])
                txt = lambda e: any(x[0] == "call" and x[1] == "config::file::read_config" for x in walk(e))
                old = lambda e: any(x[0] == "field" and x[1] == ("param", 1) and x[2] == "source" for x in walk(e)) or e[0] == "phi"
                if (txt(a) and old(b2)) or (txt(b2) and old(a)):
                    changed = True
        r.require(parse_ok, "apply-only-parsed-config", fn=g, site=sc.at, detail="set_config is dominated by the success edge of Format::parse")
        r.require(changed, "apply-only-when-text-changed", fn=g, site=sc.at, detail="set_config is control-dependent on new text != stored text")
        cfgarg = sc.arg(1)
        r.require(any(x[0] == "call" and x[1] == PARSE for x in walk(cfgarg)), "applies-the-parsed-config", fn=g, site=sc.at, detail="set_config argument %s" % show(cfgarg, 6))
        r.require(deep_strip(sc.arg(0)) == ("field", ("param", 1), "handle") or any(x == ("param", 1) for x in walk(sc.arg(0))), "own-handle", fn=g, detail="handle %s" % show(sc.arg(0)))
        ptxt = pr.arg(1)
        okp = any(x[0] == "call" and x[1] == "config::file::read_config" for x in walk(ptxt))
        if not okp and _chain(ptxt) is not None:
            # the text is parsed out of the field it was just remembered in: some store of the text read into that field dominates the parse
            okp = any(g.dominates(b_, pr.block) and any(x[0] == "call" and x[1] == "config::file::read_config" for x in walk(g._rvalue(st_["rv"], frozenset(), 30, b_)))
                      for b_, i_, st_ in _self_stores(g, _chain(ptxt)))
        r.require(okp, "parses-the-new-text", fn=g, site=pr.at, detail="parsed text %s" % show(ptxt, 5))
        # returns
        rets = q.ret_assignments(g)
        kinds = []
        for b, e in rets:
            if q.classify_ret(e) == "ok":
                pay = dict(e[3]).get("0")
                reach_sc = g.can_reach(sc.block, b) or b == sc.block
                if reach_sc:
                    okr = any(x[0] == "call" and x[1] == "config::raw::RawConfig::refresh_rate" and any(y[0] == "call" and y[1] == PARSE for y in walk(x)) for x in walk(pay))
                    r.require(okr, "new-rate-from-parsed-config", fn=g, detail="after applying, returns %s" % show(pay, 5))
                    kinds.append("applied")
                else:
                    okr = pay[0] == "agg" and pay[2] == "Some" and deep_strip(dict(pay[3]).get("0")) == ("param", 2)
                    r.require(okr, "unchanged-returns-same-rate:bb%d" % 0, fn=g, detail="unchanged edge returns %s" % show(pay, 4))
                    kinds.append("unchanged")
        r.require("applied" in kinds and "unchanged" in kinds, "both-outcomes", fn=g, detail="return kinds: %s" % kinds)
        # unchanged edges do not touch the handle: set_config unreachable from equal-edges
        for b in g.blocks:
            if b["term"]["k"] == "switch" and b["id"] in g.reachable_blocks():
                si = SwitchInfo(g, b["id"])
                nf = cmp_nf(si.discr, True)
                if nf and nf[0] in ("Eq", "Ne"):
                    t = si.target_of(nf[0] == "Eq")
                    r.require(sc.block not in g.reach(t, include_src=True), "equal-edge-leaves-logger-alone:bb%d" % 0 if False else "equal-edge-leaves-logger-alone:%s" % ("mtime" if any(x[0] == "call" and "metadata" in x[1] for x in walk(si.discr)) else "text"), fn=g,
                              detail="from the `==` edge of %s set_config is unreachable" % show(si.discr, 4))
        # the mtime shortcut must be an exact equality: timestamps can move backwards (restored backup, clock step)
        mt = []
        for blk in g.blocks:
            if blk["term"]["k"] == "switch" and blk["id"] in g.reachable_blocks():
                si = SwitchInfo(g, blk["id"])
                nf = cmp_nf(si.discr, True)
                if nf and any(x[0] == "call" and x[1] == "std::fs::Metadata::modified" or (x[0] == "closure") for y in nf[1:] for x in walk(y)) and any(x[0] == "field" and x[2] == "modified" for y in nf[1:] for x in walk(y)):
                    mt.append((nf[0], si))
        r.require(len(mt) == 1 and mt[0][0] in ("Eq", "Ne"), "mtime-shortcut-is-exact-equality", fn=g, detail="stored mtime vs file mtime compared with: %s" % [m[0] for m in mt],
                  fail_detail="the unchanged-file shortcut compares modification times with %s instead of ==: a changed file whose mtime did not increase (restored backup, clock step) is never applied" % [m[0] for m in mt])
        # parse error keeps last good config: Break edge of parse cannot reach set_config
        for b in g.blocks:
            if b["term"]["k"] == "switch" and b["id"] in g.reachable_blocks():
                si = SwitchInfo(g, b["id"])
                e = strip(si.discr)
                if e[0] == "discr" and any(x[0] == "call" and x[1] == PARSE for x in walk(e)):
                    bt = si.target_of("Break") or si.target_of("Err")
                    r.require(bt is not None and sc.block not in g.reach(bt, include_src=True), "parse-error-keeps-last-good", fn=g, detail="the failure edge of parse cannot reach set_config")
        starts = p.all_calls(RUN)
        r.require(len(starts) == 1, "reloader-started-once", detail="callers of ConfigReloader::run: %s" % [c.fn.path for c in starts])


def rule_thread_survives(ctx, p, cfg, rid="A12"):
    """`errors keep it polling` also needs the thread to live through them: nothing the loop itself runs - polling, reading the
    file, reporting an error - has an un-discharged panic site (parsing, building and the swap are inventoried by C14.K8 / C13.V4)."""
    from l4sa import panics
    from rules import c14
    with ctx.rule(rid, "the refresh thread does not die of an error", cfg) as r:
        building = (PARSE, SET_CONFIG, "config::file::deserialize")
        cone = p.cone([RUN], cut_traits=c14.CUT, stop=building) - set(building)
        r.floor("thread-cone", len(cone), 5)
        r.require("handle_error" in cone, "reporter-in-cone", detail="the error reporter is part of what the thread runs")
        st = panics.check_cone(r, p, cone, "C15")
        ctx.extra.setdefault("panic_inventory", {})[cfg] = dict(st, cone=len(cone))
        # ... nor of a stack it was given too little of: parsing and building recurse with the document's nesting, so the thread
        # runs on the default stack, like the caller of init_file did for the same file
        sz = [(g, c) for g in p.fns.values() if g.path.startswith("config::file::") for c in g.calls() if (c.callee or "").rsplit("::", 1)[-1] == "stack_size"]
        r.require(not sz, "default-stack", fn=(sz[0][0] if sz else None), site=(sz[0][1].at if sz else None), detail="the refresh thread is spawned without a stack_size",
                  fail_detail="the refresh thread is given an explicit stack size: a document that init_file loaded on the caller's stack can overflow it on reload, which aborts the process")

def run_cfg(ctx, p, cfg):
    if "config_parsing" in p.meta.get("features", []):
        # "without panicking": the reloader installs what the lossy build kept; the install indexes the appender table by every
        # name a logger still refers to, so no dangling reference may survive the build (C13.V2 re-evaluated)
        from rules import c13
        c13.rule_retention(ctx, p, cfg, "A10")
        from rules import c14
        c14.rule_raw_to_runtime(ctx, p, cfg, "A13")
        # "keeps the last good configuration and keeps polling": a refresh_rate that does not parse is an error of the document (the
        # reloader reads `None` as "stop refreshing")
        from rules import c20, common
        c20.rule_refresh_rate_parsing(ctx, p, cfg, "A14")
        common.rule_visitor_entry_points(ctx, p, cfg, "A15", "config::raw::de_duration::", ("visit_str",), "refresh_rate")   # "applies a changed file's configuration": what the new document says is what is installed (C14.K7 re-evaluated)
    from rules import c02
    c02.rule_install_publishes(ctx, p, cfg, "A11")   # "records logged after the swap use the new configuration": the facade's global maximum published with a swap is the new logger's
    rule_one_snapshot(ctx, p, cfg, "A1")
    with ctx.rule("A2", "immutable self-contained snapshot", cfg) as r:
        snap, lf = snapshot_adt(p)
        ro = anchors.routing(p)
        r.require("alloc::sync::Arc<arc_swap::ArcSwapAny<alloc::sync::Arc<%s>" % snap in lf["ty"], "logger-holds-one-arcswap", detail="Logger.0 : %s" % lf["ty"])
        node = ro["node_adt"]
        deliver_adt = ro["deliver"].d.get("impl_self_adt")
        IM = ("Mutex<", "RwLock<", "Cell<", "RefCell<", "Atomic", "UnsafeCell<", "OnceCell<", "ArcSwap", "Lazy<")
        for adt in (snap, node, deliver_adt):
            for fld in p.adt(adt)["variants"][0]["fields"]:
                r.require(not any(k in fld["ty"] for k in IM), "no-interior-mutability:%s.%s" % (adt, fld["name"]), detail="%s.%s : %s" % (adt, fld["name"], fld["ty"]))
                r.require(fld["vis"].startswith("Restricted"), "private:%s.%s" % (adt, fld["name"]), detail="visibility %s" % fld["vis"])
        tys = " ".join(x["ty"] for x in p.adt(snap)["variants"][0]["fields"])
        r.require(node in tys and deliver_adt in tys, "snapshot-owns-tree-and-table", detail="snapshot field types: %s" % tys)
        aggs = sorted({a[0].path for a in p.aggregates(snap)})
        r.require(aggs == [ro["shared_new"].path], "snapshot-built-only-by-constructor", detail="snapshot aggregates in: %s" % aggs)
        addc = sorted({c.fn.path for c in p.all_calls(ro["add"].path)})
        r.require(set(addc) <= {ro["shared_new"].path, ro["add"].path}, "tree-mutator-called-only-during-construction", detail="callers of %s: %s" % (ro["add"].path, addc))
        for adt in (snap, node):
            for fld in p.adt(adt)["variants"][0]["fields"]:
                ws = sorted({x[0].path for x in p.field_writes(adt, fld["name"])})
                r.require(set(ws) <= {ro["shared_new"].path, ro["add"].path}, "field-written-only-during-construction:%s.%s" % (adt, fld["name"]), detail="writers: %s" % ws)
        # functions taking &mut node are only the mutator
        muts = sorted(f.path for f in p.fns.values() if f.nargs >= 1 and f.locals[1:2] and f.locals[1] == "&mut " + node)
        r.require(set(muts) <= {ro["add"].path}, "only-mutator-takes-mut-node", detail="functions with &mut %s receiver: %s" % (node, muts))
        h = p.adt("Handle")
        r.require(all(x["vis"].startswith("Restricted") for x in h["variants"][0]["fields"]), "handle-field-private", detail="Handle fields: %s" % [(x["name"], x["vis"]) for x in h["variants"][0]["fields"]])

    with ctx.rule("A3", "swap", cfg) as r:
        ro = anchors.routing(p)
        snap, lf = snapshot_adt(p)
        f = p.fn(SET_CONFIG)
        st = f.calls(anchors.STORE)
        r.require(len(st) == 1, "single-store", fn=f, detail="ArcSwap::store sites: %d" % len(st))
        allst = p.all_calls(anchors.STORE) + p.all_calls(lambda n: (n or "").startswith("arc_swap::") and (n or "").rsplit("::", 1)[-1] in ("swap", "rcu", "compare_and_swap"))
        r.require({c.fn.path for c in allst} == {SET_CONFIG}, "store-only-in-set_config", detail="functions swapping the snapshot: %s" % sorted({c.fn.path for c in allst}))
        if len(st) == 1:
            s = st[0]
            v = s.arg(1)
            news = [x for x in walk(v) if x[0] == "call" and x[1] in p.fns and p.fns[x[1]].d.get("impl_self_adt") == snap]
            r.require(bool(news), "stores-fresh-snapshot", fn=f, site=s.at, detail="stored value %s" % show(v, 5))
            if news:
                nb = news[0][3]
                r.require(f.dominates(nb, s.block) and nb != s.block, "build-dominates-store", fn=f, detail="snapshot construction (bb%d) dominates store (bb%d)" % (nb, s.block))
                r.require(deep_strip(news[0][2][0]) == ("param", 2), "built-from-new-config", fn=f, detail="constructor argument %s" % show(news[0][2][0]))
                cone = p.cone([news[0][1]], cut_traits=("append::Append", "filter::Filter", "encode::Encode"))
                r.require(ro["shared_new"].path in cone, "constructor-is-the-complete-one", detail="%s reaches %s" % (news[0][1], ro["shared_new"].path))
            r.require(all(f.dominates(s.block, rb) for rb in f.return_blocks()) and not f.in_loop(s.block), "store-on-every-path", fn=f, detail="every return is preceded by the store")
            r.require(deep_strip(s.arg(0))[0] == "field" and any(x == ("param", 1) for x in walk(s.arg(0))), "store-into-own-swap", fn=f, detail="store receiver %s" % show(s.arg(0)))

    with ctx.rule("A4", "no lock across delivery", cfg) as r:
        cone = p.cone([anchors.LOG_LOG, anchors.LOG_ENABLED], cut_traits=("append::Append", "filter::Filter", "encode::Encode"))
        locks = []
        for x in cone:
            for c in p.fns[x].calls():
                nm = c.callee or ""
                if nm in q.LOCK_CALLS or nm.rsplit("::", 1)[-1] in ("lock", "write", "read", "try_lock", "borrow_mut") and ("Mutex" in nm or "RwLock" in nm or "RefCell" in nm):
                    locks.append("%s in %s" % (nm, x))
        r.require(not locks, "routing-cone-lock-free", detail="cone of Log::log/enabled (cut at dyn Append/Filter): %d fns; lock acquisitions: %s" % (len(cone), locks))

    feats = set(p.meta.get("features", []))
    if "config_parsing" not in feats:
        return
    with ctx.rule("A6", "the reloader starts from exactly what was loaded", cfg) as r:
        f = p.fn("config::file::init_file")
        rd = f.call1("config::file::read_config")
        st = f.call1("config::file::ConfigReloader::start")
        md = [c for c in f.calls() if c.callee in ("std::fs::metadata", "std::fs::Metadata::modified", "std::fs::File::metadata")]
        md += [c for g in p.closures_of(f.path) for c in g.calls() if c.callee == "std::fs::Metadata::modified"]
        mdf = [c for c in f.calls("std::fs::metadata")]
        r.require(len(mdf) == 1, "one-mtime-read", fn=f, detail="fs::metadata sites in init_file: %d" % len(mdf))
        later = [c for c in f.calls() if c.callee in p.fns and c.callee not in ("config::file::read_config", "config::file::Format::from_path") and c.block != st.block]
        if mdf:
            m = mdf[0]
            # the text and its timestamp are taken together: nothing that interprets or installs the configuration runs in between,
            # otherwise a save during that window pairs the old text with the new timestamp and is never picked up
            between = [c for c in later if f.dominates(c.block, m.block) and f.dominates(rd.block, c.block)]
            base = {sb for sb, si, al in f.conditions(rd.block)}
            extra = [si for sb, si, al in f.conditions(m.block) if sb not in base and not (
                strip(si.discr)[0] == "discr" and any(x[0] == "call" and len(x) > 3 and x[3] == rd.block for x in walk(si.discr)))]
            after_rd = f.dominates(rd.block, m.block) and not between and not extra
            before_rd = f.dominates(m.block, rd.block) and not [c for c in later if f.dominates(m.block, c.block) and f.dominates(c.block, rd.block)]
            r.require(after_rd or before_rd, "mtime-read-next-to-the-text", fn=f, site=m.at,
                      detail="the modification time is read right beside read_config (no parse/deserialize/install call in between, not conditional)",
                      fail_detail="the modification time handed to the reloader is read after %s: a save in that window leaves the reloader with the old text and the new timestamp, so the change is never applied" % [c.callee for c in between][:3])
        src = st.arg(3) if len(st.args) > 3 else None
        r.require(src is not None and any(x[0] == "call" and len(x) > 3 and x[3] == rd.block for x in walk(src)), "reloader-gets-the-loaded-text", fn=f, site=st.at,
                  detail="ConfigReloader::start receives the text read by read_config")
        # ... and the path it polls is the path it was given, as a name: resolved once (canonicalize, read_link, an absolute form taken
        # at start-up) it would keep naming the old target after a symlink is re-pointed or a directory is swapped
        pa = st.arg(0) if st.args else None
        calls_ = [x[1] for x in walk(pa) if x[0] == "call"] if pa is not None else []
        foreign = [c_ for c_ in calls_ if c_.rsplit("::", 1)[-1] not in ("to_path_buf", "as_ref", "to_owned", "into", "from", "clone", "borrow", "deref", "as_path", "new")]
        r.require(pa is not None and any(x == ("param", 1) for x in walk(pa)) and not foreign, "reloader-polls-the-path-given", fn=f, site=st.at,
                  detail="ConfigReloader::start receives the path argument itself: %s" % (show(pa, 5) if pa is not None else None),
                  fail_detail="the path handed to the reloader is %s: not the name the caller gave (%s) - a change delivered by re-pointing a symlink or swapping a directory is never seen" % (show(pa, 6) if pa is not None else None, foreign[:3]))

    with ctx.rule("A7", "changes are detected through the path", cfg) as r:
        # a handle kept open across polls keeps naming the old inode after the file is replaced (editors save by rename)
        # or deleted: the timestamp has to come from a fresh lookup of the configured path on every poll
        cone = [p.fn(x) for x in p.cone([RUN_ONCE]) if x in p.fns and x.startswith("config::file::")]
        byh = [(g, c) for g in cone for c in g.calls() if c.callee in ("std::fs::File::metadata", "std::os::unix::fs::MetadataExt::mtime") or (c.callee or "").endswith("File::metadata")]
        r.require(not byh, "no-stat-through-a-kept-handle", fn=(byh[0][0] if byh else None), site=(byh[0][1].at if byh else None),
                  detail="File::metadata sites in the reloader: %d" % len(byh),
                  fail_detail="the reloader stats an open file handle (%s): after the file is replaced by rename or deleted the handle still names the old inode, so the change is never seen" % (byh[0][1].callee if byh else ""))
        byp = [(g, c) for g in cone for c in g.calls("std::fs::metadata")]
        okp = bool(byp) and all(any(x[0] == "field" and x[2] == "path" for x in walk(c.arg(0))) for g, c in byp)
        r.require(okp, "stats-the-configured-path", fn=(byp[0][0] if byp else None), detail="fs::metadata(&self.path) sites: %d" % len(byp))
        mods = [(g, c) for g in cone for c in g.calls("std::fs::Metadata::modified")]
        okm = bool(mods) and all(any(x[0] == "call" and x[1] == "std::fs::metadata" for x in walk(c.arg(0))) or g.path != RUN_ONCE for g, c in mods)
        r.require(okm, "timestamp-of-that-lookup", fn=(mods[0][0] if mods else None), detail="modified() is taken from the metadata just looked up")

    with ctx.rule("A9", "a file that is not one whole document does not parse", cfg) as r:
        # "an unparsable file keeps the last good configuration" rests on the parser rejecting it
        from rules import c14
        c14.rule_whole_document_parsers(r, p)
    with ctx.rule("A8", "the text compared against is the text last read", cfg) as r:
        # "unchanged" is decided by comparing the file's text with the remembered one: the remembered text has to be replaced by
        # what was just read whenever a new configuration is applied, or a later edit back to an older text is taken for "no change"
        f = p.fn(RUN_ONCE)
        rd = f.call1("config::file::read_config")
        sc = f.call1("Handle::set_config") if f.calls("Handle::set_config") else None
        if sc is None:
            raise ShapeUnrecognised("no Handle::set_config call in the reloader's poll step")
        is_read = lambda e: any(x[0] == "call" and len(x) > 3 and x[3] == rd.block and x[1] == "config::file::read_config" for x in walk(e))
        fld = None
        for c in f.calls():
            if (c.callee or "").rsplit("::", 1)[-1] in ("eq", "ne") and len(c.args) == 2:
                a0, a1 = deep_strip(c.arg(0)), deep_strip(c.arg(1))
                for x, y in ((a0, a1), (a1, a0)):
                    for ya in (y[1] if y[0] == "phi" else (y,)):
                        ya = deep_strip(ya)
                        if is_read(x) and x[0] != "phi" and _chain(ya) is not None:
                            fld = ".".join(_chain(ya))
        r.require(fld is not None, "text-compared-with-the-remembered-one", fn=f, detail="the text read is compared with self.%s" % fld)
        if fld is not None:
            sts = _self_stores(f, fld.split("."))
            good = [(b, i, st) for b, i, st in sts if is_read(f._rvalue(st["rv"], frozenset(), 30, b))]
            r.require(bool(good) and len(good) == len(sts), "remembered-text-is-what-was-read", fn=f, detail="assignments to self.%s: %d, all from the text just read" % (fld, len(sts)),
                      fail_detail="self.%s is %s: the comparison that detects a changed file runs against a stale text" % (fld, "never updated from the text read" if not good else "also assigned from something else"))
            r.require(any(f.dominates(b, sc.block) for b, i, st in good), "remembered-before-the-config-is-applied", fn=f, site=sc.at,
                      detail="every path that installs a configuration has replaced the remembered text first")

    rule_reloader_flow(ctx, p, cfg, "A5")
    rule_thread_survives(ctx, p, cfg, "A12")
