"""C06 — size trigger rolls exactly when the limit is exceeded; size accounting is exact."""
import itertools

from l4sa import q
from l4sa.core import AnchorMissing, ShapeUnrecognised, SwitchInfo, strip, deep_strip, walk, show, calls_in, cmp_nf
from rules import rolling, common

CLAIMED = True
TECHNIQUE = "static analysis over type-checked MIR: comparison normal form of the trigger, field-write inventory and increment provenance of the byte counter, per-edge seeding of the counter coupled to the truncate flag's truth table, dominance of the size read by flush"
LEVEL_TEXT = """Static, all-paths decision of: (Z1) SizeTrigger::trigger returns Ok(len_estimate > limit) in comparison normal form with len from LogFile::len_estimate and limit the trigger's own field; (Z2) every io::Write method of the log writer that writes to the file adds exactly the number of bytes the inner write accepted (Ok payload, or the slice length for write_all) to the counter, and the counter has no other writer besides the constructor aggregate; (Z3) in get_writer the counter is seeded from File::metadata().len() of the file just opened on every edge where truncate is false and with 0 only where the same flag makes truncate true; (Z4) the size handed to the policy is read after flush on the post-processing branch and the size trigger is post-processing (is_pre_process = const false); (Z5) Policy::process runs on every successful append (never deferred); (Z6) CompoundPolicy::process rolls whenever the trigger answers true — no second condition guards roll() or the roller; (Z8/Z9) a limit written in a configuration file is scaled by exactly the documented unit table and the product is checked for overflow (C20.L1/L2 premises re-evaluated), so the number compared against is the one configured; (Z7) the counted writer's file is reached only through write-family/flush calls on the buffered handle itself (a write that bypasses the handle would also bypass the counter). Equality with fs::metadata under partial writes or foreign writers is not decided. (Z13) a roll that reports success has taken the file away (C07.R5 table re-evaluated)."""
LEVEL_NOTE = "Trusted: rustc MIR/callee resolution; BufWriter::write returns the number of bytes it accepted; File::metadata().len() is the on-disk size. Decides comparator direction, accounting provenance and ordering on all paths; not numeric equality with the file system."
EXPLANATION = """Decided: Z1 comparator len > limit, Z2 accounting adds accepted bytes (sole writer), Z3 seeding coupled to truncate flag, Z4 size read after flush + trigger is post-processing, Z5 policy consulted on every successful append, Z6 a true trigger always rolls, Z7 no write path around the counter. Undecided: equality with the file system under partial writes/foreign writers."""
DECIDED = ["Z1 comparator", "Z2 accounting", "Z3 seeding", "Z4 what the policy sees", "Z5 never deferred", "Z6 triggered => rolled", "Z7 single buffered handle", "Z8/Z9 the configured limit literal is scaled by the documented unit table with a checked multiplication (C20.L1/L2 re-evaluated)", "Z3b reopen appends unless truncating", "Z6b/Z6c a done roll took the file; directories made at roll time (C07 re-evaluated)", "Z10 the configured limit reaches the trigger unchanged"]
UNDECIDED = ["equality with fs::metadata under partial writes / foreign writers"]
TRUSTED = ["rustc nightly MIR + Instance::try_resolve", "std BufWriter::write / File::metadata semantics"]

SIZE_TRIGGER = "<append::rolling_file::policy::compound::trigger::size::SizeTrigger as append::rolling_file::policy::compound::trigger::Trigger>::trigger"
SIZE_IS_PRE = "<append::rolling_file::policy::compound::trigger::size::SizeTrigger as append::rolling_file::policy::compound::trigger::Trigger>::is_pre_process"
WRITE_FAMILY = ("write", "write_all", "write_vectored", "write_fmt", "write_all_vectored")


def run(ctx):
    configs = ["default", "full"] if ctx.tier == "quick" else ["default", "full", "single:rolling_file_appender,compound_policy,size_trigger"]
    for cfg in configs:
        run_cfg(ctx, ctx.prog(cfg), cfg)


def run_cfg(ctx, p, cfg):
    if "config_parsing" in p.meta.get("features", []) and "size_trigger" in p.meta.get("features", []):
        # "all limits (including 0)": the limit a document states is the limit the trigger compares with
        common.rule_config_reaches_component(ctx, p, cfg, "Z10", "SizeTriggerDeserializer", "SizeTrigger::new", stored={"limit": 1})
    if "fixed_window_roller" in p.meta.get("features", []):
        from rules import c07
        c07.rule_move_file(ctx, p, cfg, "Z13")   # "the active file never stays above N": a roll that reports success has taken the file away from the active path (C07.R5 re-evaluated)
    with ctx.rule("Z1", "comparator", cfg) as r:
        f = p.fn(SIZE_TRIGGER)
        rets = q.ret_assignments(f)
        r.require(len(rets) == 1 and q.classify_ret(rets[0][1]) == "ok", "returns-ok-bool", fn=f, detail="single Ok(..) return: %s" % [show(e, 4) for b, e in rets])
        if len(rets) == 1 and rets[0][1][0] == "agg":
            payload = dict(rets[0][1][3]).get("0")
            nf = cmp_nf(payload)
            ok = False
            if nf:
                op, a, b = nf
                a, b = deep_strip(a), deep_strip(b)
                ok = op == "Lt" and a[0] == "field" and a[1] == ("param", 1) and b[0] == "call" and b[1] == rolling.LEN_EST and deep_strip(b[2][0]) == ("param", 2)
            r.require(ok, "len-gt-limit", fn=f, detail="normal form of the returned comparison: %s" % (show(("nf",) + nf, 5) if nf else show(payload, 5)))
        le = p.fn(rolling.LEN_EST)
        ro = rolling.roles(p)
        e = deep_strip(le.local_expr(0))
        r.require(e == ("field", ("param", 1), ro["lf_len"]), "len_estimate-is-the-len-field", fn=le, detail="len_estimate returns %s" % show(e))

    with ctx.rule("Z2", "accounting", cfg) as r:
        ro = rolling.roles(p)
        lw, lenf, filef = ro["logwriter"], ro["len_field"], ro["file_field"]
        impl = [i for i in p.impls if i.get("trait") == "std::io::Write" and i.get("self_ty") == lw]
        if len(impl) != 1:
            raise AnchorMissing("io::Write impl for %s not found" % lw)
        methods = [p.fn(m) for m in impl[0]["methods"]]
        impl_fns = set()
        for m in methods:
            impl_fns.add(m.path)
            for c in p.closures_of(m.path):
                impl_fns.add(c.path)
        writes = p.field_writes(lw, lenf)
        outside = sorted({f.path for f, b, i, s in writes if f.path not in impl_fns})
        r.require(not outside, "counter-written-only-by-io-write-impl", detail="writers of %s.%s outside its io::Write impl: %s" % (lw, lenf, outside))
        aggs = p.aggregates(lw)
        r.require({a[0].path for a in aggs} == {ro["get_writer"].path}, "constructed-only-in-opener", detail="LogWriter aggregates: %s" % sorted({a[0].path for a in aggs}))
        n_writing = 0
        for m in methods:
            name = m.path.rsplit("::", 1)[-1]
            inner = [c for c in m.calls() if c.decl and c.decl.startswith("std::io::Write::") and c.decl.rsplit("::", 1)[-1] in WRITE_FAMILY
                     and deep_strip(c.arg(0)) == ("field", ("param", 1), filef)]
            scope = [m] + p.closures_of(m.path)
            incs = [(f, b, i, s) for (f, b, i, s) in writes if f in scope]
            if not inner:
                r.require(not incs, "no-count-without-write:%s" % name, fn=m, detail="%s does not write to the file and does not touch the counter" % name)
                continue
            n_writing += 1
            r.require(len(inner) == 1 and not m.in_loop(inner[0].block), "one-inner-write:%s" % name, fn=m, detail="exactly one inner write call")
            r.require(len(incs) == 1, "one-increment:%s" % name, fn=m, detail="exactly one counter update for the inner write (found %d)" % len(incs))
            if len(incs) != 1 or len(inner) != 1:
                continue
            f, b, i, s = incs[0]
            val = f._rvalue(s["rv"], frozenset(), 30, b)
            okv = val[0] == "bin" and val[1] == "Add"
            amount = None
            if okv:
                x, y = deep_strip(val[2]), deep_strip(val[3])
                def is_len(e):
                    # `self.len += n` reads the field it writes: the recovered old value is the field itself,
                    # possibly joined with the (cyclic) value just stored
                    if e[0] == "phi":
                        alts = [deep_strip(x) for x in e[1]]
                        return any(is_len(x) for x in alts) and all(is_len(x) or any(y[0] == "cycle" for y in walk(x)) for x in alts)
                    return e[0] == "field" and e[2] == lenf
                if is_len(x):
                    amount = val[3]
                elif is_len(y):
                    amount = val[2]
            r.require(amount is not None, "increment-is-len-plus-n:%s" % name, fn=f, detail="counter := %s" % show(val, 5))
            if amount is None:
                continue
            a = strip(amount)
            if a[0] == "cast":
                a = strip(a[2])
            iw = inner[0]
            inner_name = iw.decl.rsplit("::", 1)[-1]
            if f is not m:
                # closure handed to Result::map / and_then / inspect on the inner call's result: amount must be the closure's argument
                clos_use = [c for c in m.calls() if c.callee in ("core::result::Result::<T, E>::map", "core::result::Result::<T, E>::and_then", "core::result::Result::<T, E>::inspect")
                            and strip(c.arg(0))[0] == "call" and strip(c.arg(0))[3] == iw.block
                            and any(x[0] == "closure" and x[1] == f.path for x in walk(c.arg(1)))]
                ok_amt = bool(clos_use) and deep_strip(a) in (("param", 2), ("deref", ("param", 2))) and inner_name in ("write", "write_vectored")
                r.require(ok_amt, "amount-is-accepted-bytes:%s" % name, fn=f,
                          detail="added amount %s is the Ok payload of the inner %s (closure on its Result)" % (show(amount, 4), inner_name))
                # the closure's capture must be self (the same writer)
                ret = m.local_expr(0)
                r.require(ret[0] == "call" and clos_use and ret[3] == clos_use[0].block, "result-passed-through:%s" % name, fn=m, detail="the inner write's (mapped) Result is returned")
            else:
                if inner_name in ("write", "write_vectored"):
                    ok_amt = any(x[0] == "as" and x[2] in ("Ok", "Continue") for x in walk(a)) and any(x[0] == "call" and len(x) > 3 and x[3] == iw.block for x in walk(a))
                    r.require(ok_amt, "amount-is-accepted-bytes:%s" % name, fn=f, detail="added amount %s derives from the inner write's Ok payload" % show(amount, 5))
                else:
                    ok_amt = a[0] == "un" and a[1] == "PtrMetadata" and deep_strip(a[2]) == ("param", 2) or (a[0] == "call" and a[1].endswith("::len") and deep_strip(a[2][0]) == ("param", 2))
                    conds = f.conditions(b)
                    on_ok = any(strip(si.discr)[0] == "discr" and {si.label(v) for v, _ in al} <= {"Ok", "Continue"} for sb, si, al in conds)
                    r.require(ok_amt and on_ok, "amount-is-slice-len-on-ok:%s" % name, fn=f, detail="write_all adds buf.len() on the Ok edge only: %s" % show(amount, 4))
        r.require(n_writing >= 1, "some-writing-method", detail="io::Write methods that reach the file: %d" % n_writing)
        # flush forwards
        fl = [m for m in methods if m.path.endswith("::flush")]
        if fl:
            ok, detail = q.check_forwarder(fl[0], "std::io::Write::flush")
            r.require(ok, "flush-forwards", fn=fl[0], detail=detail)

    rule_seeding(ctx, p, cfg, "Z3")

    rolling.rule_reopen(ctx, p, cfg, "Z3b")   # the counter describes the file only if every write lands at its end: the (re)open appends unless it truncates

    with ctx.rule("Z4", "what the policy sees", cfg) as r:
        f = p.fn(SIZE_IS_PRE)
        e = f.local_expr(0)
        r.require(e == ("const", "bool", False), "size-trigger-is-post-processing", fn=f, detail="SizeTrigger::is_pre_process returns %s" % show(e))
        ro = rolling.roles(p)
        bs = rolling.branch_sites(p)
        a = bs["fn"]
        post = bs["post"]
        if len(post["flush"]) == 1 and len(post["process"]) == 1:
            fl = post["flush"][0]
            reads = [(b, i) for (b, i, s) in rolling.len_reads(p, a) if b in bs["post_only"]]
            r.require(bool(reads) and all(a.dominates(fl.block, b) and b != fl.block for b, i in reads), "len-read-after-flush", fn=a,
                      detail="size read in bb%s after flush bb%d" % ([b for b, i in reads], fl.block))
        else:
            r.fail("post-branch-shape", fn=a, detail="post-processing branch does not have one flush and one process call")

    rolling.rule_lock_span(ctx, p, cfg, "Z12")   # the size the policy is shown is the size after this very write: write, flush, the read of the size and the policy run under one lock
    rolling.rule_branch_order(ctx, p, cfg, "Z5")
    if "compound_policy" in p.meta.get("features", []):
        rolling.rule_policy_order(ctx, p, cfg, "Z6")   # exceeding the limit always leads to the rotation
        if "fixed_window_roller" in p.meta.get("features", []):
            from rules import c07
            c07.rule_roll_moves_file(ctx, p, cfg, "Z6b")   # .. and the roller does not report it done while the file is still in place (never deferred)
            c07.rule_directories(ctx, p, cfg, "Z6c")   # .. nor fails (leaving the file to grow) for want of a directory it could have made: made sure of at roll time (C07.R10 re-evaluated)
    rolling.rule_writer_handle(ctx, p, cfg, "Z7")
    if "config_parsing" in p.meta.get("features", []) and "size_trigger" in p.meta.get("features", []):
        # the limit compared against is the number the configuration states: unit table and overflow check of the literal
        from rules import c20
        c20.rule_size_table(ctx, p, cfg, "Z8")
        c20.rule_size_overflow(ctx, p, cfg, "Z9")


def _ds_bool(e):
    """deep-strip inside a boolean expression so atoms compare equal to the flag"""
    e = strip(e, calls=set())
    if e[0] == "un":
        return ("un", e[1], _ds_bool(e[2]))
    if e[0] == "bin":
        return ("bin", e[1], _ds_bool(e[2]), _ds_bool(e[3]))
    if e[0] == "const":
        return e
    return deep_strip(e)


def rule_seeding(ctx, p, cfg, rid="Z3"):
    with ctx.rule(rid, "seeding", cfg) as r:
        ro = rolling.roles(p)
        g = ro["get_writer"]
        lw, lenf = ro["logwriter"], ro["len_field"]
        aggs = [a for a in p.aggregates(lw) if a[0] is g]
        if len(aggs) != 1:
            raise ShapeUnrecognised("expected one LogWriter aggregate in %s" % g.path)
        _, ab, ai, rv = aggs[0]
        names = rv.get("field_names", [])
        op_len = rv["fields"][names.index(lenf)]
        flag = ("field", ("param", 1), ro["append_field"])
        opn = g.call1(rolling.OPEN)
        tr = common.open_options(g, opn).get("truncate")
        trunc_expr = _ds_bool(tr[0]) if tr else ("const", "bool", False)
        atoms = q.bool_atoms(trunc_expr)
        r.require(all(a == flag or a[0] == "param" for a in atoms), "truncate-decided-by-flag-and-open-context", fn=g,
                  detail="truncate argument %s (atoms: the appender's append flag / the opener's own parameters)" % show(trunc_expr, 4))

        def trunc_values(block):
            """possible values of the truncate argument on the paths reaching `block`"""
            cons = []
            for sb, si, al in g.conditions(block):
                labs = {si.label(v) for v, _ in al}
                if labs <= {True, False} and si.is_bool:
                    cons.append((_ds_bool(q.bool_value(g, g.term(sb)["discr"])), labs))
            def unnot(x):
                neg = False
                while x[0] == "un" and x[1] == "Not":
                    x, neg = x[2], not neg
                return x, neg
            tcore, tneg = unnot(trunc_expr)
            for d, labs in cons:
                dcore, dneg = unnot(d)
                if dcore == tcore:
                    return set(labs) if dneg == tneg else {not x for x in labs}
            res = set()
            for vals in itertools.product([False, True], repeat=len(atoms)):
                env = dict(zip(atoms, vals))
                if all(q.eval_bool(d, env) & labs for d, labs in cons if set(q.bool_atoms(d)) <= set(atoms)):
                    res |= q.eval_bool(trunc_expr, env)
            return res
        # definitions of the seed
        seeds = []
        if "const" in op_len:
            seeds.append((ab, g.expr(op_len)))
        else:
            pl = op_len.get("copy") or op_len.get("move")
            seeds.extend(g.root_defs(pl["l"]))
        r.require(len(seeds) >= 1, "seed-defs", fn=g, detail="definitions of the seed: %s" % [show(e, 4) for b, e in seeds])
        covered_false = False
        for n, (b, e) in enumerate(seeds):
            tv = trunc_values(b)
            es = deep_strip(e)
            from_meta = es[0] == "call" and es[1] == "std::fs::Metadata::len" and any(x[0] == "call" and x[1] == "std::fs::File::metadata" and any(
                y[0] == "call" and y[1] == rolling.OPEN for y in walk(x)) for x in walk(es))
            is_zero = es == ("const", "int", 0)
            if is_zero:
                r.require(tv == {True}, "zero-seed-only-when-truncating", fn=g,
                          detail="seed 0 is used only on edges where the truncate argument is true (truncate values there: %s)" % sorted(tv),
                          fail_detail="the size counter is seeded with 0 on an edge where the file is not truncated (truncate values: %s): pre-existing bytes are not counted" % sorted(tv))
            elif from_meta:
                r.ok("metadata-seed#%d" % n, fn=g, detail="seed from metadata().len() of the opened file (truncate values on that edge: %s)" % sorted(tv))
                if False in tv:
                    covered_false = True
            else:
                r.fail("seed-unrecognised#%d" % n, fn=g, detail="seed %s is neither 0 nor metadata().len() of the opened file" % show(e, 5))
        r.require(covered_false, "existing-bytes-counted", fn=g, detail="whenever the file is not truncated the seed is the file's size")
        # the file's length is changed by nothing but the open flags modelled above: an explicit resize or a write through the raw
        # handle inside the opener would make the seed describe a file that no longer exists in that form
        resize = [c for c in g.calls() if c.callee in ("std::fs::File::set_len", "std::io::Seek::seek", "std::io::Seek::rewind", "std::io::Write::write", "std::io::Write::write_all", "std::fs::write", "std::fs::remove_file")]
        r.require(not resize, "length-changed-only-by-the-open-flags", fn=g, site=(resize[0].at if resize else None), detail="resizing/writing calls in the opener: %d" % len(resize),
                  fail_detail="the opener calls %s: the file's length changes outside the open flags the seed is derived from, so the seeded size need not be the file's size" % (resize[0].callee if resize else ""))
        md = g.calls("std::fs::File::metadata")
        for c in md:
            r.require(common.result_is_checked(g, c), "metadata-error-propagated", fn=g, site=c.at, detail="metadata() failure is propagated")

