"""C12 — JSON encoder: one record, one line, and the fields round-trip exactly."""
from l4sa import q
from l4sa.core import AnchorMissing, ShapeUnrecognised, SwitchInfo, strip, deep_strip, walk, show, calls_in, cmp_nf
from rules import common

CLAIMED = True
TECHNIQUE = "static analysis over type-checked MIR: serializer-constructor identity (compact), write inventory and ordering on the writer parameter, key/skip table of the derived Serialize impl, provenance of the Message fields from Record accessors, escaper-only output in the hand-written Serialize impls"
LEVEL_TEXT = """Static, all-paths decision of the structural clauses (serde_json's escaping and number/string round trip are trusted, not decided): (J1) the serializer is built with serde_json::Serializer::new (compact formatter) on the writer parameter; no pretty/with_formatter constructor anywhere in the module; (J2) the only uses of the writer in encode_inner are that serializer and, after the serialize call's success edge, exactly one write_all of NEWLINE on every Ok path — nothing before, between or after; (J3) the derived Serialize for Message emits the keys time, level, message, module_path, file, line, target, thread, thread_id, mdc in that order, skip_field is guarded by Option::is_none exactly for module_path, file and line, and those three fields of the Message aggregate come straight from Record::{module_path,file,line} (no unwrap_or placeholder); level/target/args/thread likewise from their accessors; (J4) time and message go through Serializer::collect_str, the MDC serialiser uses serialize_map/serialize_key/serialize_value for every log_mdc::iter entry and keeps the first error, and no raw io::Write call occurs inside a Serialize impl of the module. (J9) with the rolling appender: its writer's file field is used only as the receiver of write-family/flush calls - never unwrapped or bypassed (C05.R7 re-evaluated). (J10) with the file appender: every Ok return of append has passed a checked flush (C04.R2 re-evaluated); (J4, cont.) serialize_map(None)."""
LEVEL_NOTE = "Trusted: rustc MIR/callee resolution; serde's derive output (as compiled) and serde_json's escaping/formatting; log_mdc::iter visits every entry."
EXPLANATION = """Decided: J1 compact serializer, J2 exactly one trailing newline, J3 field/skip table and field provenance, J4 everything passes the escaper. Undecided: serde_json's escaping and exact round trip of strings/numbers."""
DECIDED = ["J1", "J2", "J3", "J4", "J5/J6 sink-side premise: the rolling appender reopens in append mode unless it truncates (C05.R5 re-evaluated)"]
UNDECIDED = ["serde_json escaping / round trip (trusted)"]
TRUSTED = ["rustc nightly MIR + Instance::try_resolve", "serde / serde_json", "log-mdc"]

ENCODE = "<encode::json::JsonEncoder as encode::Encode>::encode"
import re as _re


def message_adt(p):
    """role: the one struct of the JSON encoder's module with a derived Serialize impl (the record as it is written out)"""
    names = set()
    for g in p.fns:
        m = _re.match(r"encode::json::_::<impl serde_core::ser::Serialize for (encode::json::[A-Za-z0-9_]+)", g)
        if m:
            names.add(m.group(1))
    if len(names) != 1:
        raise AnchorMissing("expected one struct with a derived Serialize in encode::json, found %s" % sorted(names))
    return names.pop()
KEYS = ["time", "level", "message", "module_path", "file", "line", "target", "thread", "thread_id", "mdc"]
SKIPPABLE = {"module_path", "file", "line"}
ACCESSORS = {"level": "log::Record::<'a>::level", "message": "log::Record::<'a>::args", "module_path": "log::Record::<'a>::module_path", "file": "log::Record::<'a>::file",
             "line": "log::Record::<'a>::line", "target": "log::Record::<'a>::target", "thread": "std::thread::thread::Thread::name", "thread_id": "thread_id::get"}


def inner_fn(p):
    """role: the function constructing the Message aggregate"""
    fs = sorted({a[0].path for a in p.aggregates(message_adt(p)) if "Derive" not in (a[0].d.get("exp") or "")})
    if len(fs) != 1:
        raise AnchorMissing("expected one function building the JSON Message, found %s" % fs)
    return p.fn(fs[0])


def run(ctx):
    configs = ["default"] if ctx.tier == "quick" else ["default", "release", "full", "single:json_encoder"]
    for cfg in configs:
        run_cfg(ctx, ctx.prog(cfg), cfg)


def rule_console_stream_exclusive(ctx, p, cfg, rid="J7"):
    """sink-side premise of "one record, one line" on a console shared by several threads: the encoder writes a record in many
    small pieces, so the console appender holds the stream's own lock from the first piece to the flush - for stdout and for
    stderr alike"""
    with ctx.rule(rid, "a console record is written under the stream's lock", cfg) as r:
        fs = [f for path, f in p.fns.items() if path == "priv_io::StdWriter::lock"]
        if not fs:
            r.ok("no-console-in-this-configuration", detail="priv_io is not compiled in this configuration (no console appender)")
            return
        if len(fs) != 1:
            raise AnchorMissing("priv_io::StdWriter::lock not found")
        f = fs[0]
        e = deep_strip(f.local_expr(0))
        alts = [deep_strip(a) for a in (e[1] if e[0] == "phi" else (e,))]
        want = {"Stdout": "std::io::stdio::Stdout::lock", "Stderr": "std::io::stdio::Stderr::lock"}
        got = {}
        for a in alts:
            if a[0] == "agg" and a[2] in want:
                v = deep_strip(dict(a[3]).get("0", ("?",)))
                got[a[2]] = v[1] if v[0] == "call" else show(v, 3)
        for var, fn_ in sorted(want.items()):
            r.require(got.get(var) == fn_, "lock-held:%s" % var, fn=f, detail="StdWriterLock::%s holds %s" % (var, got.get(var)),
                      fail_detail="StdWriter::lock() hands out the %s stream without locking it (%s): records written concurrently interleave piece by piece" % (var.lower(), got.get(var)))
        if "console_appender" in p.meta.get("features", []):
            ap = p.fn("<append::console::ConsoleAppender as append::Append>::append")
            lk = [c for c in ap.calls() if (c.callee or "").endswith("::lock")]
            en = [c for c in ap.calls() if (c.callee or "") == "encode::Encode::encode"]
            fl = [c for c in ap.calls() if (c.callee or "").endswith("Write::flush")]
            r.require(len(lk) == 1 and bool(en) and all(ap.dominates(lk[0].block, c.block) for c in en + fl), "locked-before-encode-and-flush", fn=ap,
                      detail="ConsoleAppender::append locks the writer once, before encode and flush")


def run_cfg(ctx, p, cfg):
    rule_console_stream_exclusive(ctx, p, cfg, "J7")
    if "file_appender" in p.meta.get("features", []):
        from rules import c04
        c04.rule_ack_flushed(ctx, p, cfg, "J10")   # "one record, one line" in the file and not in a buffer: whatever the level, the line has been flushed when append returns (C04.R2 re-evaluated)
        c04.rule_open_options(ctx, p, cfg, "J8")   # sink-side premise: lines written through several handles on one file do not overwrite each other (O_APPEND; C04.R4 re-evaluated)
    if "rolling_file_appender" in p.meta.get("features", []):
        # sink-side premise of "one record, one line": the file the lines go to is reopened in append mode unless it was just
        # truncated, so a line is never written over lines that are kept (C05.R5 re-evaluated)
        from rules import rolling
        rolling.rule_reopen(ctx, p, cfg, "J6")
        # ... and every byte of a line goes through the one buffered handle, in order: a line never overtakes an earlier one
        # still sitting in the buffer (C05.R7 re-evaluated)
        rolling.rule_writer_handle(ctx, p, cfg, "J9")
    with ctx.rule("J1", "compact formatter", cfg) as r:
        f = inner_fn(p)
        ctors = [c for c in f.calls() if (c.callee or "").startswith("serde_json::ser::Serializer")]
        r.require(len(ctors) == 1 and ctors[0].callee == "serde_json::ser::Serializer::<W>::new", "serializer-is-compact", fn=f,
                  detail="serializer constructors in %s: %s" % (f.path, [c.callee for c in ctors]))
        bad = []
        for g in p.fns.values():
            if not g.path.startswith("encode::json") and "encode::json::" not in g.path:
                continue
            for c in g.calls():
                nm = c.callee or ""
                if nm.startswith("serde_json") and any(k in nm for k in ("pretty", "with_formatter", "PrettyFormatter", "to_writer_pretty", "to_string_pretty", "to_vec_pretty")):
                    bad.append("%s in %s" % (nm, g.path))
                if any("PrettyFormatter" in a for a in c.t.get("generic_args", [])):
                    bad.append("PrettyFormatter instantiation in %s" % g.path)
        r.require(not bad, "no-pretty-printing", detail="pretty/with_formatter uses in encode::json: %s" % bad)
        if ctors:
            r.require(deep_strip(ctors[0].arg(0)) == ("param", 2), "serializer-writes-to-the-output", fn=f, site=ctors[0].at, detail="Serializer::new(&mut *w)")
        e = p.fn(ENCODE)
        ic = [c for c in e.calls(f.path)]
        r.require(len(ic) == 1 and deep_strip(ic[0].arg(1)) == ("param", 2) and deep_strip(ic[0].arg(3)) == ("param", 3), "encode-forwards-writer-and-record", fn=e, detail="Encode::encode hands its writer and record to %s" % f.path)

    with ctx.rule("J2", "exactly one terminator", cfg) as r:
        f = inner_fn(p)
        CTOR = "serde_json::ser::Serializer::<W>::new"

        def hands_over(a):
            # the writer itself, or the serializer wrapping it, is the argument (a value merely computed from a
            # call that used the writer -- an error being converted -- is not a use of the writer)
            d = deep_strip(a)
            return d == ("param", 2) or (d[0] == "call" and d[1] == CTOR and any(x == ("param", 2) for x in walk(d)))
        uses = [c for c in f.calls() if any(hands_over(a) for a in c.arg_exprs())
                and c.callee not in ("core::ops::try_trait::Try::branch", "core::ops::try_trait::FromResidual::from_residual")]
        ser = [c for c in uses if any(deep_strip(a)[0] == "call" and deep_strip(a)[1] == CTOR for a in c.arg_exprs()) and c.callee != CTOR]
        ctor = [c for c in uses if c.callee == "serde_json::ser::Serializer::<W>::new"]
        wa = [c for c in uses if c.callee == "std::io::Write::write_all"]
        other = [c.callee for c in uses if c not in ser and c not in ctor and c not in wa]
        r.require(len(ser) == 1 and len(ctor) == 1 and len(wa) == 1 and not other, "writer-uses", fn=f,
                  detail="uses of the writer: serialize %d, Serializer::new %d, write_all %d, other %s" % (len(ser), len(ctor), len(wa), other))
        # the trait method hands the writer to that function and does nothing else with it (a style request or any other byte
        # before or after the object would be part of the line)
        e_ = p.fn(ENCODE)
        if e_.path != f.path:
            wu = [c for c in e_.calls() if any(deep_strip(a) == ("param", 2) for a in c.arg_exprs())
                  and c.callee not in ("core::ops::try_trait::Try::branch", "core::ops::try_trait::FromResidual::from_residual")]
            r.require(len(wu) == 1 and wu[0].callee == f.path, "encode-only-hands-the-writer-on", fn=e_, detail="uses of the writer in Encode::encode: %s" % [c.callee for c in wu],
                      fail_detail="JsonEncoder::encode uses the writer for %s besides handing it to %s: whatever that emits is on the record's line" % (
                          [c.callee for c in wu if c.callee != f.path], f.path.rsplit("::", 1)[-1]))
        if len(ser) == 1 and len(wa) == 1:
            s, w = ser[0], wa[0]
            r.require(f.dominates(s.block, w.block) and s.block != w.block and not f.in_loop(w.block) and not f.in_loop(s.block), "newline-after-serialize", fn=f, site=w.at, detail="serialize dominates the single write_all")
            gate = [(si, al) for sb, si, al in f.conditions(w.block) if any(x[0] == "call" and len(x) > 3 and x[3] == s.block for x in walk(si.discr))]
            r.require(bool(gate) and all({si.label(v) for v, _ in al} <= {"Continue", "Ok"} for si, al in gate), "newline-only-after-success", fn=f, detail="write_all is on the success edge of serialize")
            ok, wit = q.must_follow_on_ok(f, s.block, [w.block])
            r.require(ok, "newline-on-every-ok", fn=f, detail="every Ok return passed the write_all")
            ok2, _ = q.must_follow_on_ok(f, 0, [s.block])
            r.require(ok2, "serialize-on-every-ok", fn=f, detail="every Ok return passed serialize")
            nl = deep_strip(w.arg(1))
            if nl[0] == "call" and nl[1] in ("core::str::<impl str>::as_bytes",):
                nl = deep_strip(nl[2][0])
            r.require(nl == ("const", "str", "\n") or nl == ("const", "str", "\r\n"), "terminator-is-NEWLINE", fn=f, site=w.at, detail="written bytes: %s" % show(nl))
            r.require(common.result_is_checked(f, w, strict=True) and common.result_is_checked(f, s, strict=True), "errors-propagated", fn=f, detail="serialize and write_all Results are propagated")
            r.require(any(x[0] == "agg" and x[1] == message_adt(p) for x in walk(s.arg(0))), "serializes-the-message", fn=f, detail="serialized value is the Message")

    with ctx.rule("J3", "field table", cfg) as r:
        sers = [g for g in p.fns.values() if g.path.startswith("encode::json::_::<impl serde_core::ser::Serialize for %s" % message_adt(p)) and g.path.endswith(">::serialize") and "__SerializeWith" not in g.path]
        if len(sers) != 1:
            raise AnchorMissing("derived Serialize for Message not found (%s)" % [g.path for g in sers])
        g = sers[0]
        order = []
        for c in g.calls():
            if c.callee == "serde_core::ser::SerializeStruct::serialize_field":
                order.append((c, deep_strip(c.arg(1))[2], "field"))
            elif c.callee == "serde_core::ser::SerializeStruct::skip_field":
                order.append((c, deep_strip(c.arg(1))[2], "skip"))
        emitted = [k for c, k, kind in order if kind == "field"]
        # source order of emission = dominance order of the blocks
        seq = sorted([(c, k) for c, k, kind in order if kind == "field"], key=lambda ck: sum(1 for c2, k2, kd in order if kd == "field" and g.dominates(c2.block, ck[0].block)))
        r.require([k for c, k in seq] == KEYS, "keys-and-order", fn=g, detail="emitted keys: %s" % [k for c, k in seq])
        skips = {k for c, k, kind in order if kind == "skip"}
        r.require(skips == SKIPPABLE, "skippable-set", fn=g, detail="skip_field keys: %s" % sorted(skips))
        for c, k, kind in order:
            gate = [(si, al) for sb, si, al in g.conditions(c.block) if strip(si.discr)[0] == "call" and strip(si.discr)[1] == "core::option::Option::<T>::is_none"
                    and deep_strip(strip(si.discr)[2][0]) == ("field", ("param", 1), k)]
            if kind == "skip":
                r.require(len(gate) == 1 and {gate[0][0].label(v) for v, _ in gate[0][1]} == {True}, "skip-iff-none:%s" % k, fn=g, detail="skip_field(%s) only when self.%s.is_none()" % (k, k))
            elif k in SKIPPABLE:
                r.require(len(gate) == 1 and {gate[0][0].label(v) for v, _ in gate[0][1]} == {False}, "emit-iff-some:%s" % k, fn=g, detail="serialize_field(%s) only when self.%s is Some" % (k, k))
            else:
                anyg = [1 for sb, si, al in g.conditions(c.block) if strip(si.discr)[0] == "call" and strip(si.discr)[1].startswith("core::option::Option")]
                r.require(not anyg, "always-emitted:%s" % k, fn=g, detail="%s is emitted unconditionally" % k)
            if kind == "field":
                v = deep_strip(c.arg(2))
                okv = any(x == ("field", ("param", 1), k) for x in walk(v)) or (v[0] == "agg" and any(x[0] == "field" and x[2] == k for x in walk(v)))
                r.require(okv, "value-is-own-field:%s" % k, fn=g, detail="serialize_field(%r, &self.%s): %s" % (k, k, show(v, 4)))
        # aggregate provenance
        f = inner_fn(p)
        aggs = [a for a in p.aggregates(message_adt(p)) if a[0] is f]
        e = f._rvalue(aggs[0][3], frozenset(), 30, aggs[0][1])
        fd = dict(e[3])
        for k, acc in ACCESSORS.items():
            v = strip(fd.get(k, ("other",)))
            okv = v[0] == "call" and v[1] == acc
            if k not in ("thread", "thread_id"):
                okv = okv and deep_strip(v[2][0]) == ("param", 4)
            r.require(okv, "field-from-record:%s" % k, fn=f, detail="%s = %s" % (k, show(fd.get(k), 4)),
                      fail_detail="Message.%s is %s, not the plain %s accessor (a placeholder/unwrap_or changes what is emitted)" % (k, show(fd.get(k), 5), acc))
        tv = fd.get("time")
        r.require(tv is not None and any(deep_strip(x) == ("param", 3) for x in walk(tv)) and any(x[0] == "call" and "format" in x[1] for x in walk(tv)), "time-from-argument", fn=f, detail="time = %s" % show(tv, 5))

    with ctx.rule("J4", "everything passes the escaper", cfg) as r:
        sw = [g for g in p.fns.values() if "__SerializeWith" in g.path and g.path.startswith("<encode::json::") and "::serialize" in g.path and g.kind != "Closure"]
        r.require(len(sw) == 2, "two-display-fields", detail="serialize_with wrappers: %d (time, message)" % len(sw))
        for g in sw:
            e = g.local_expr(0)
            r.require(e[0] == "call" and e[1] == "encode::json::ser_display" or (e[0] == "call" and e[1] in p.fns and p.fns[e[1]].calls("serde_core::ser::Serializer::collect_str")), "display-via-helper:%s" % g.path[-20:], fn=g, detail=show(e, 4))
        helpers = sorted({g.local_expr(0)[1] for g in sw if g.local_expr(0)[0] == "call"})
        for h in helpers:
            hf = p.fn(h)
            e = hf.local_expr(0)
            r.require(e[0] == "call" and e[1] == "serde_core::ser::Serializer::collect_str" and deep_strip(e[2][0]) == ("param", 2) and deep_strip(e[2][1]) == ("param", 1), "helper-is-collect_str:%s" % h, fn=hf, detail=show(e, 4))
        m = p.fn("<encode::json::Mdc as serde_core::ser::Serialize>::serialize")
        sm = m.call1("serde_core::ser::Serializer::serialize_map")
        it = m.call1("log_mdc::iter")
        en = m.call1("serde_core::ser::SerializeMap::end")
        r.require(m.dominates(sm.block, it.block) and m.dominates(it.block, en.block), "map-iter-end-order", fn=m, detail="serialize_map -> log_mdc::iter -> end")
        # no length promised in advance: the MDC can change between any count taken earlier and this iteration (a Display argument
        # of the record may insert into it), and serde_json closes a map announced as empty at once
        hint = deep_strip(sm.arg(1)) if len(sm.args) > 1 else None
        r.require(hint is not None and hint[0] == "agg" and hint[2] == "None", "map-length-not-promised", fn=m, site=sm.at, detail="serialize_map(None)",
                  fail_detail="serialize_map is given the length %s: if the MDC holds a different number of entries when it is iterated the object is closed too early (or never) and the line is not one JSON object" % (show(hint, 4) if hint else None))
        clo = [x for x in walk(it.arg(0)) if x[0] == "closure"]
        okc = False
        if clo:
            cf = p.fn(clo[0][1])
            ks = cf.calls("serde_core::ser::SerializeMap::serialize_key")
            inner = p.closures_of(m.path)
            scope = {g2.path: g2 for g2 in inner + [cf]}
            vs = [c for g2 in scope.values() for c in g2.calls("serde_core::ser::SerializeMap::serialize_value")]
            okc = len(ks) == 1 and len(vs) == 1 and deep_strip(ks[0].arg(1)) == ("param", 2)
            r.require(okc, "key-and-value-per-entry", fn=cf, detail="serialize_key(k) and serialize_value(v) once per MDC entry")

            def clean_gate(g_, block):
                """tests on the way to `block` that require 'no error so far': a match on a Result/Option being Ok/None/Continue,
                or is_err()/is_some() false, is_ok()/is_none() true"""
                out = []
                for sb, si, al in g_.conditions(block):
                    labs = {si.label(v) for v, _ in al}
                    d = strip(si.discr)
                    if d[0] == "discr" and labs and labs <= {"Ok", "None", "Continue"}:
                        out.append((si, labs))
                    elif d[0] == "call" and d[1].rsplit("::", 1)[-1] in ("is_err", "is_some") and labs == {False}:
                        out.append((si, labs))
                    elif d[0] == "call" and d[1].rsplit("::", 1)[-1] in ("is_ok", "is_none") and labs == {True}:
                        out.append((si, labs))
                return out
            # first error kept: the key call is control-dependent on the accumulator still being clean
            if ks:
                r.require(bool(clean_gate(cf, ks[0].block)), "stops-after-first-error", fn=cf, detail="entries are serialised only while no error occurred")
            if vs and ks and vs[0].fn is cf:
                kgate = [1 for si, labs in clean_gate(cf, vs[0].block) if any(x[0] == "call" and len(x) > 3 and x[3] == ks[0].block for x in walk(si.discr))]
                r.require(bool(kgate), "value-only-after-key-succeeded", fn=cf, detail="serialize_value is control-dependent on serialize_key's Ok")
        # the collected error is propagated before end(): `err?`, or end() only on the accumulator's clean edge
        tb = [c for c in m.calls("core::ops::try_trait::Try::branch") if m.dominates(it.block, c.block) and m.dominates(c.block, en.block)]
        guarded_end = False
        for sb, si, al in m.conditions(en.block):
            labs = {si.label(v) for v, _ in al}
            d = strip(si.discr)
            if m.dominates(it.block, sb) and ((d[0] == "discr" and labs and labs <= {"Ok", "None", "Continue"}) or
                                               (d[0] == "call" and d[1].rsplit("::", 1)[-1] in ("is_err", "is_some") and labs == {False}) or
                                               (d[0] == "call" and d[1].rsplit("::", 1)[-1] in ("is_ok", "is_none") and labs == {True})):
                other = si.target_of("Err") if d[0] == "discr" and "Ok" in labs else (si.target_of("Some") if d[0] == "discr" and "None" in labs else None)
                guarded_end = True
        rets_err = [e for b, e in q.ret_assignments(m) if q.classify_ret(e) == "err"]
        r.require(len(tb) >= 1 or (guarded_end and bool(rets_err)), "collected-error-propagated", fn=m, detail="the collected error is returned (`err?` or a match) and map.end() runs only without one")
        # no raw writes inside Serialize impls of the module
        raw = []
        for g in p.fns.values():
            if ("encode::json::" in g.path) and ("ser::Serialize" in g.path or g.path.startswith("encode::json::ser_")):
                for c in g.calls():
                    if (c.callee or "").startswith("std::io::Write::") or (c.callee or "").startswith("core::fmt::Write::"):
                        raw.append("%s in %s" % (c.callee, g.path))
        r.require(not raw, "no-raw-writes-in-serialize-impls", detail="raw write calls inside Serialize impls: %s" % raw)
