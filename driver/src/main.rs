// l4facts: a rustc_private driver that dumps the type-checked, resolved program
// (MIR bodies with resolved callees, ADTs, impls, constants) of selected crates
// as one JSON fact file per crate.  Nothing is decided here; the rules live in
// /verif/l4sa and /verif/rules.  Used as RUSTC_WORKSPACE_WRAPPER under
// `cargo +nightly check`.
#![feature(rustc_private)]
#![allow(clippy::all)]

extern crate rustc_abi;
extern crate rustc_driver;
extern crate rustc_hir;
extern crate rustc_interface;
extern crate rustc_middle;
extern crate rustc_session;
extern crate rustc_span;

mod json;

use json::J;
use rustc_driver::Compilation;
use rustc_hir::def::DefKind;
use rustc_hir::def_id::{DefId, LocalDefId};
use rustc_interface::interface::Compiler;
use rustc_middle::mir::{
    self, AggregateKind, AssertKind, BasicBlockData, Body, BorrowKind, CastKind, Const,
    ConstValue, Operand, Place, ProjectionElem, Rvalue, StatementKind, TerminatorKind, UnwindAction,
};
use rustc_middle::ty::print::{with_no_trimmed_paths, with_no_visible_paths, PrintTraitRefExt};
use rustc_middle::ty::{self, Instance, InstanceKind, Ty, TyCtxt, TypingEnv};
use rustc_span::Span;
use std::io::Write;

struct Cb;

impl rustc_driver::Callbacks for Cb {
    fn after_analysis<'tcx>(&mut self, _c: &Compiler, tcx: TyCtxt<'tcx>) -> Compilation {
        let name = tcx.crate_name(rustc_hir::def_id::LOCAL_CRATE).to_string();
        let wanted = std::env::var("L4FACTS_CRATES").unwrap_or_else(|_| "log4rs".to_string());
        if wanted.split(',').any(|w| w == name) {
            if let Ok(dir) = std::env::var("L4FACTS_OUT") {
                let is_test = tcx.sess.is_test_crate();
                if !is_test {
                    let facts = with_no_visible_paths!(with_no_trimmed_paths!(dump_crate(tcx, &name)));
                    let path = format!("{}/{}.json", dir, name);
                    let tmp = format!("{}.tmp{}", path, std::process::id());
                    let mut buf = String::with_capacity(8 << 20);
                    facts.write(&mut buf);
                    let mut f = std::fs::File::create(&tmp).expect("l4facts: create fact file");
                    f.write_all(buf.as_bytes()).expect("l4facts: write fact file");
                    drop(f);
                    std::fs::rename(&tmp, &path).expect("l4facts: rename fact file");
                }
            }
        }
        Compilation::Continue
    }
}

fn main() {
    let mut args: Vec<String> = std::env::args().collect();
    // RUSTC_WORKSPACE_WRAPPER convention: argv[1] is the path of the real rustc.
    if args.len() > 1 && (args[1].ends_with("rustc") || args[1].contains("/rustc")) {
        args.remove(1);
    }
    rustc_driver::run_compiler(&args, &mut Cb);
}

// ---------------------------------------------------------------------------

fn jstr<S: Into<String>>(s: S) -> J {
    J::Str(s.into())
}

fn span_info<'tcx>(tcx: TyCtxt<'tcx>, span: Span) -> (String, Option<String>) {
    // (file:line of the outermost call site, description of the expansion if any)
    let sm = tcx.sess.source_map();
    let root = span.source_callsite();
    let loc = sm.lookup_char_pos(root.lo());
    let file = match &loc.file.name {
        rustc_span::FileName::Real(r) => match r.local_path() {
            Some(p) => p.display().to_string(),
            None => format!("{:?}", r),
        },
        other => format!("{:?}", other),
    };
    let exp = if span.from_expansion() {
        let mut chain: Vec<String> = Vec::new();
        let mut s = span;
        let mut guard = 0;
        while s.from_expansion() && guard < 16 {
            let d = s.ctxt().outer_expn_data();
            chain.push(match d.kind {
                rustc_span::ExpnKind::Root => "root".to_string(),
                rustc_span::ExpnKind::Macro(k, name) => format!("macro:{:?}:{}", k, name),
                rustc_span::ExpnKind::AstPass(p) => format!("astpass:{:?}", p),
                rustc_span::ExpnKind::Desugaring(k) => format!("desugar:{:?}", k),
            });
            s = d.call_site;
            guard += 1;
        }
        Some(chain.join("<"))
    } else {
        None
    };
    (format!("{}:{}", file, loc.line), exp)
}

fn ty_str<'tcx>(ty: Ty<'tcx>) -> String {
    format!("{}", ty)
}

fn dump_crate<'tcx>(tcx: TyCtxt<'tcx>, name: &str) -> J {
    let mut root: Vec<(String, J)> = Vec::new();

    // ---- meta
    let mut meta: Vec<(String, J)> = Vec::new();
    meta.push(("crate".into(), jstr(name)));
    meta.push(("nonce".into(), jstr(std::env::var("L4FACTS_NONCE").unwrap_or_default())));
    meta.push(("config".into(), jstr(std::env::var("L4FACTS_CONFIG").unwrap_or_default())));
    meta.push(("debug_assertions".into(), J::Bool(tcx.sess.opts.debug_assertions)));
    meta.push(("overflow_checks".into(), J::Bool(tcx.sess.overflow_checks())));
    let mut cfgs: Vec<String> = tcx
        .sess
        .config
        .iter()
        .filter_map(|(k, v)| {
            if k.as_str() == "feature" {
                v.map(|v| v.to_string())
            } else {
                None
            }
        })
        .collect();
    cfgs.sort();
    meta.push(("features".into(), J::Arr(cfgs.into_iter().map(jstr).collect())));
    root.push(("meta".into(), J::Obj(meta)));

    // ---- ADTs, impls, consts (from HIR items)
    let mut adts: Vec<(String, J)> = Vec::new();
    let mut impls: Vec<J> = Vec::new();
    let mut consts: Vec<(String, J)> = Vec::new();
    let mut traits: Vec<(String, J)> = Vec::new();
    for id in tcx.hir_free_items() {
        let did: LocalDefId = id.owner_id.def_id;
        let def_id = did.to_def_id();
        match tcx.def_kind(def_id) {
            DefKind::Struct | DefKind::Enum | DefKind::Union => {
                let adt = tcx.adt_def(def_id);
                let mut o: Vec<(String, J)> = Vec::new();
                o.push((
                    "kind".into(),
                    jstr(if adt.is_enum() {
                        "enum"
                    } else if adt.is_union() {
                        "union"
                    } else {
                        "struct"
                    }),
                ));
                o.push(("vis".into(), jstr(format!("{:?}", tcx.visibility(def_id)))));
                let (sp, _) = span_info(tcx, tcx.def_span(def_id));
                o.push(("span".into(), jstr(sp)));
                let discrs: Vec<(rustc_abi::VariantIdx, ty::util::Discr<'tcx>)> = if adt.is_enum() {
                    adt.discriminants(tcx).collect()
                } else {
                    Vec::new()
                };
                let mut vars: Vec<J> = Vec::new();
                for (vi, v) in adt.variants().iter_enumerated() {
                    let mut vo: Vec<(String, J)> = Vec::new();
                    vo.push(("name".into(), jstr(v.name.to_string())));
                    vo.push(("idx".into(), J::Num(vi.as_u32() as i128)));
                    if let Some((_, d)) = discrs.iter().find(|(i, _)| *i == vi) {
                        vo.push(("discr".into(), J::Num(d.val as i128)));
                    }
                    let mut fields: Vec<J> = Vec::new();
                    for f in v.fields.iter() {
                        let fty = tcx.type_of(f.did).instantiate_identity().skip_norm_wip();
                        fields.push(J::Obj(vec![
                            ("name".into(), jstr(f.name.to_string())),
                            ("ty".into(), jstr(ty_str(fty))),
                            ("vis".into(), jstr(format!("{:?}", f.vis))),
                        ]));
                    }
                    vo.push(("fields".into(), J::Arr(fields)));
                    vars.push(J::Obj(vo));
                }
                o.push(("variants".into(), J::Arr(vars)));
                adts.push((tcx.def_path_str(def_id), J::Obj(o)));
            }
            DefKind::Impl { .. } => {
                let mut o: Vec<(String, J)> = Vec::new();
                let self_ty = tcx.type_of(def_id).instantiate_identity().skip_norm_wip();
                o.push(("self_ty".into(), jstr(ty_str(self_ty))));
                if let ty::Adt(a, _) = self_ty.kind() {
                    o.push(("self_adt".into(), jstr(tcx.def_path_str(a.did()))));
                    o.push(("self_local".into(), J::Bool(a.did().is_local())));
                }
                match tcx.impl_opt_trait_ref(def_id) {
                    Some(tr) => {
                        let tr = tr.instantiate_identity().skip_norm_wip();
                        o.push(("trait".into(), jstr(tcx.def_path_str(tr.def_id))));
                        o.push(("trait_full".into(), jstr(format!("{}", tr.print_only_trait_path()))));
                    }
                    None => {
                        o.push(("trait".into(), J::Null));
                    }
                }
                let (sp, exp) = span_info(tcx, tcx.def_span(def_id));
                o.push(("span".into(), jstr(sp)));
                if let Some(e) = exp {
                    o.push(("exp".into(), jstr(e)));
                }
                let mut methods: Vec<J> = Vec::new();
                for item in tcx.associated_items(def_id).in_definition_order() {
                    if matches!(item.kind, ty::AssocKind::Fn { .. }) {
                        methods.push(jstr(tcx.def_path_str(item.def_id)));
                    }
                }
                o.push(("methods".into(), J::Arr(methods)));
                impls.push(J::Obj(o));
            }
            DefKind::Trait => {
                let mut methods: Vec<J> = Vec::new();
                for item in tcx.associated_items(def_id).in_definition_order() {
                    if matches!(item.kind, ty::AssocKind::Fn { .. }) {
                        methods.push(J::Obj(vec![
                            ("name".into(), jstr(item.name().to_string())),
                            ("path".into(), jstr(tcx.def_path_str(item.def_id))),
                            ("has_default".into(), J::Bool(item.defaultness(tcx).has_value())),
                        ]));
                    }
                }
                traits.push((
                    tcx.def_path_str(def_id),
                    J::Obj(vec![
                        ("vis".into(), jstr(format!("{:?}", tcx.visibility(def_id)))),
                        ("methods".into(), J::Arr(methods)),
                    ]),
                ));
            }
            DefKind::Const { .. } | DefKind::Static { .. } => {
                let ty = tcx.type_of(def_id).instantiate_identity().skip_norm_wip();
                let generics = tcx.generics_of(def_id);
                let mut o: Vec<(String, J)> = Vec::new();
                o.push(("ty".into(), jstr(ty_str(ty))));
                o.push(("kind".into(), jstr(format!("{:?}", tcx.def_kind(def_id)))));
                if generics.count() == 0 && matches!(tcx.def_kind(def_id), DefKind::Const { .. }) {
                    if let Ok(v) = tcx.const_eval_poly(def_id) {
                        o.push(("value".into(), const_value(tcx, v, ty)));
                    }
                }
                consts.push((tcx.def_path_str(def_id), J::Obj(o)));
            }
            _ => {}
        }
    }
    root.push(("adts".into(), J::Obj(adts)));
    root.push(("impls".into(), J::Arr(impls)));
    root.push(("traits".into(), J::Obj(traits)));
    root.push(("consts".into(), J::Obj(consts)));

    // ---- MIR bodies
    let mut fns: Vec<(String, J)> = Vec::new();
    let mut seen_paths: std::collections::HashMap<String, usize> = std::collections::HashMap::new();
    let mut keys: Vec<LocalDefId> = tcx.mir_keys(()).iter().copied().collect();
    keys.sort_by_key(|k| tcx.def_path_str(k.to_def_id()));
    for did in keys {
        let def_id = did.to_def_id();
        let kind = tcx.def_kind(def_id);
        let path = tcx.def_path_str(def_id);
        let is_ctfe = matches!(
            kind,
            DefKind::Const { .. }
                | DefKind::Static { .. }
                | DefKind::AssocConst { .. }
                | DefKind::AnonConst
                | DefKind::InlineConst
        );
        if matches!(kind, DefKind::Ctor(..)) {
            continue;
        }
        let body: &Body<'tcx> = if is_ctfe {
            tcx.mir_for_ctfe(def_id)
        } else {
            tcx.optimized_mir(def_id)
        };
        let mut o = fn_header(tcx, def_id, kind);
        dump_body(tcx, def_id, body, &mut o);
        // items declared in sibling anonymous scopes can print identically: keep keys unique
        let path = {
            let n = seen_paths.entry(path.clone()).or_insert(0usize);
            *n += 1;
            if *n > 1 { format!("{}{{dup#{}}}", path, *n - 1) } else { path }
        };
        fns.push((path.clone(), J::Obj(o)));
        // promoteds
        if !is_ctfe {
            let proms = tcx.promoted_mir(def_id);
            for (pi, pb) in proms.iter_enumerated() {
                let mut po: Vec<(String, J)> = Vec::new();
                po.push(("kind".into(), jstr("promoted")));
                po.push(("promoted_of".into(), jstr(path.clone())));
                dump_body(tcx, def_id, pb, &mut po);
                fns.push((format!("{}::{{promoted#{}}}", path, pi.as_u32()), J::Obj(po)));
            }
        }
    }
    root.push(("fns".into(), J::Obj(fns)));
    J::Obj(root)
}

fn fn_header<'tcx>(tcx: TyCtxt<'tcx>, def_id: DefId, kind: DefKind) -> Vec<(String, J)> {
    let mut o: Vec<(String, J)> = Vec::new();
    o.push(("kind".into(), jstr(format!("{:?}", kind))));
    if matches!(kind, DefKind::Fn | DefKind::AssocFn) {
        o.push(("vis".into(), jstr(format!("{:?}", tcx.visibility(def_id)))));
        o.push(("name".into(), jstr(tcx.item_name(def_id).to_string())));
        let sig = tcx.fn_sig(def_id).instantiate_identity().skip_norm_wip();
        o.push(("sig".into(), jstr(format!("{}", sig))));
    }
    if matches!(kind, DefKind::Closure) {
        let parent = tcx.typeck_root_def_id(def_id);
        o.push(("closure_of".into(), jstr(tcx.def_path_str(parent))));
        o.push(("closure_parent".into(), jstr(tcx.def_path_str(tcx.parent(def_id)))));
    }
    if matches!(kind, DefKind::AssocFn | DefKind::AssocConst { .. }) {
        let parent = tcx.parent(def_id);
        match tcx.def_kind(parent) {
            DefKind::Impl { .. } => {
                let self_ty = tcx.type_of(parent).instantiate_identity().skip_norm_wip();
                o.push(("impl_self_ty".into(), jstr(ty_str(self_ty))));
                if let ty::Adt(a, _) = self_ty.kind() {
                    o.push(("impl_self_adt".into(), jstr(tcx.def_path_str(a.did()))));
                }
                if let Some(tr) = tcx.impl_opt_trait_ref(parent) {
                    let tr = tr.instantiate_identity().skip_norm_wip();
                    o.push(("impl_trait".into(), jstr(tcx.def_path_str(tr.def_id))));
                }
            }
            DefKind::Trait => {
                o.push(("trait_default_of".into(), jstr(tcx.def_path_str(parent))));
            }
            _ => {}
        }
    }
    let (sp, exp) = span_info(tcx, tcx.def_span(def_id));
    o.push(("span".into(), jstr(sp)));
    if let Some(e) = exp {
        o.push(("exp".into(), jstr(e)));
    }
    o
}

fn dump_body<'tcx>(tcx: TyCtxt<'tcx>, owner: DefId, body: &Body<'tcx>, o: &mut Vec<(String, J)>) {
    let env = TypingEnv::post_analysis(tcx, owner);
    o.push(("arg_count".into(), J::Num(body.arg_count as i128)));
    let locals: Vec<J> = body.local_decls.iter().map(|d| jstr(ty_str(d.ty))).collect();
    o.push(("locals".into(), J::Arr(locals)));
    let mut names: Vec<(String, J)> = Vec::new();
    for v in body.var_debug_info.iter() {
        if let mir::VarDebugInfoContents::Place(p) = &v.value {
            names.push((v.name.to_string(), place(tcx, body, p)));
        }
    }
    o.push(("vars".into(), J::Obj(names)));
    let mut blocks: Vec<J> = Vec::new();
    for (bb, data) in body.basic_blocks.iter_enumerated() {
        blocks.push(dump_block(tcx, env, body, bb.as_u32(), data));
    }
    o.push(("blocks".into(), J::Arr(blocks)));
}

fn dump_block<'tcx>(
    tcx: TyCtxt<'tcx>,
    env: TypingEnv<'tcx>,
    body: &Body<'tcx>,
    id: u32,
    data: &BasicBlockData<'tcx>,
) -> J {
    let mut o: Vec<(String, J)> = Vec::new();
    o.push(("id".into(), J::Num(id as i128)));
    if data.is_cleanup {
        o.push(("cleanup".into(), J::Bool(true)));
    }
    let mut stmts: Vec<J> = Vec::new();
    for s in data.statements.iter() {
        let (sp, _) = span_info(tcx, s.source_info.span);
        match &s.kind {
            StatementKind::Assign(b) => {
                let (p, rv) = &**b;
                let mut so = vec![
                    ("k".into(), jstr("assign")),
                    ("lhs".into(), place(tcx, body, p)),
                    ("rv".into(), rvalue(tcx, env, body, rv)),
                    ("at".into(), jstr(sp)),
                ];
                if !p.projection.is_empty() {
                    so.push(("lhs_ty".into(), jstr(ty_str(p.ty(&body.local_decls, tcx).ty))));
                }
                stmts.push(J::Obj(so));
            }
            StatementKind::SetDiscriminant { place: p, variant_index } => {
                let pty = p.ty(&body.local_decls, tcx).ty;
                let vname = match pty.kind() {
                    ty::Adt(a, _) => a.variant(*variant_index).name.to_string(),
                    _ => format!("{}", variant_index.as_u32()),
                };
                stmts.push(J::Obj(vec![
                    ("k".into(), jstr("set_discr")),
                    ("lhs".into(), place(tcx, body, p)),
                    ("variant".into(), jstr(vname)),
                    ("at".into(), jstr(sp)),
                ]));
            }
            StatementKind::StorageDead(l) => {
                stmts.push(J::Obj(vec![
                    ("k".into(), jstr("dead")),
                    ("l".into(), J::Num(l.as_u32() as i128)),
                ]));
            }
            StatementKind::StorageLive(_)
            | StatementKind::FakeRead(..)
            | StatementKind::PlaceMention(..)
            | StatementKind::AscribeUserType(..)
            | StatementKind::Coverage(..)
            | StatementKind::ConstEvalCounter
            | StatementKind::Nop => {}
            other => {
                stmts.push(J::Obj(vec![
                    ("k".into(), jstr("other")),
                    ("text".into(), jstr(format!("{:?}", other))),
                ]));
            }
        }
    }
    o.push(("stmts".into(), J::Arr(stmts)));
    let term = data.terminator();
    o.push(("term".into(), terminator(tcx, env, body, term)));
    J::Obj(o)
}

fn unwind_target(u: &UnwindAction) -> J {
    match u {
        UnwindAction::Cleanup(bb) => J::Num(bb.as_u32() as i128),
        _ => J::Null,
    }
}

fn terminator<'tcx>(
    tcx: TyCtxt<'tcx>,
    env: TypingEnv<'tcx>,
    body: &Body<'tcx>,
    term: &mir::Terminator<'tcx>,
) -> J {
    let (sp, exp) = span_info(tcx, term.source_info.span);
    let mut o: Vec<(String, J)> = Vec::new();
    match &term.kind {
        TerminatorKind::Goto { target } => {
            o.push(("k".into(), jstr("goto")));
            o.push(("target".into(), J::Num(target.as_u32() as i128)));
        }
        TerminatorKind::SwitchInt { discr, targets } => {
            o.push(("k".into(), jstr("switch")));
            o.push(("discr".into(), operand(tcx, env, body, discr)));
            let dty = discr.ty(&body.local_decls, tcx);
            o.push(("discr_ty".into(), jstr(ty_str(dty))));
            let mut arms: Vec<J> = Vec::new();
            for (v, t) in targets.iter() {
                arms.push(J::Obj(vec![
                    ("value".into(), J::Num(v as i128)),
                    ("target".into(), J::Num(t.as_u32() as i128)),
                ]));
            }
            o.push(("arms".into(), J::Arr(arms)));
            o.push(("otherwise".into(), J::Num(targets.otherwise().as_u32() as i128)));
        }
        TerminatorKind::UnwindResume => o.push(("k".into(), jstr("resume"))),
        TerminatorKind::UnwindTerminate(_) => o.push(("k".into(), jstr("terminate"))),
        TerminatorKind::Return => o.push(("k".into(), jstr("return"))),
        TerminatorKind::Unreachable => o.push(("k".into(), jstr("unreachable"))),
        TerminatorKind::Drop { place: p, target, unwind, .. } => {
            o.push(("k".into(), jstr("drop")));
            o.push(("place".into(), place(tcx, body, p)));
            o.push(("ty".into(), jstr(ty_str(p.ty(&body.local_decls, tcx).ty))));
            o.push(("target".into(), J::Num(target.as_u32() as i128)));
            o.push(("unwind".into(), unwind_target(unwind)));
        }
        TerminatorKind::Call { func, args, destination, target, unwind, .. } => {
            o.push(("k".into(), jstr("call")));
            callee(tcx, env, body, func, &mut o);
            let a: Vec<J> = args.iter().map(|a| operand(tcx, env, body, &a.node)).collect();
            o.push(("args".into(), J::Arr(a)));
            let at: Vec<J> = args
                .iter()
                .map(|a| jstr(ty_str(a.node.ty(&body.local_decls, tcx))))
                .collect();
            o.push(("arg_tys".into(), J::Arr(at)));
            o.push(("dest".into(), place(tcx, body, destination)));
            o.push((
                "dest_ty".into(),
                jstr(ty_str(destination.ty(&body.local_decls, tcx).ty)),
            ));
            o.push((
                "target".into(),
                match target {
                    Some(t) => J::Num(t.as_u32() as i128),
                    None => J::Null,
                },
            ));
            o.push(("unwind".into(), unwind_target(unwind)));
        }
        TerminatorKind::TailCall { func, args, .. } => {
            o.push(("k".into(), jstr("tailcall")));
            callee(tcx, env, body, func, &mut o);
            let a: Vec<J> = args.iter().map(|a| operand(tcx, env, body, &a.node)).collect();
            o.push(("args".into(), J::Arr(a)));
        }
        TerminatorKind::Assert { cond, expected, msg, target, unwind } => {
            o.push(("k".into(), jstr("assert")));
            o.push(("cond".into(), operand(tcx, env, body, cond)));
            o.push(("expected".into(), J::Bool(*expected)));
            let (kind, ops): (String, Vec<J>) = match &**msg {
                AssertKind::BoundsCheck { len, index } => (
                    "BoundsCheck".into(),
                    vec![operand(tcx, env, body, len), operand(tcx, env, body, index)],
                ),
                AssertKind::Overflow(op, a, b) => (
                    format!("Overflow({:?})", op),
                    vec![operand(tcx, env, body, a), operand(tcx, env, body, b)],
                ),
                AssertKind::OverflowNeg(a) => ("OverflowNeg".into(), vec![operand(tcx, env, body, a)]),
                AssertKind::DivisionByZero(a) => {
                    ("DivisionByZero".into(), vec![operand(tcx, env, body, a)])
                }
                AssertKind::RemainderByZero(a) => {
                    ("RemainderByZero".into(), vec![operand(tcx, env, body, a)])
                }
                other => (format!("{:?}", other).chars().take(60).collect(), vec![]),
            };
            o.push(("kind".into(), jstr(kind)));
            o.push(("ops".into(), J::Arr(ops)));
            o.push(("target".into(), J::Num(target.as_u32() as i128)));
            o.push(("unwind".into(), unwind_target(unwind)));
        }
        TerminatorKind::FalseEdge { real_target, .. } => {
            o.push(("k".into(), jstr("goto")));
            o.push(("target".into(), J::Num(real_target.as_u32() as i128)));
        }
        TerminatorKind::FalseUnwind { real_target, .. } => {
            o.push(("k".into(), jstr("goto")));
            o.push(("target".into(), J::Num(real_target.as_u32() as i128)));
        }
        other => {
            o.push(("k".into(), jstr("other")));
            o.push(("text".into(), jstr(format!("{:?}", other))));
        }
    }
    o.push(("at".into(), jstr(sp)));
    if let Some(e) = exp {
        o.push(("exp".into(), jstr(e)));
    }
    J::Obj(o)
}

fn callee<'tcx>(
    tcx: TyCtxt<'tcx>,
    env: TypingEnv<'tcx>,
    body: &Body<'tcx>,
    func: &Operand<'tcx>,
    o: &mut Vec<(String, J)>,
) {
    let fty = func.ty(&body.local_decls, tcx);
    match fty.kind() {
        ty::FnDef(def_id, args) => {
            o.push(("decl".into(), jstr(tcx.def_path_str(*def_id))));
            o.push(("decl_full".into(), jstr(tcx.def_path_str_with_args(*def_id, args))));
            o.push(("decl_local".into(), J::Bool(def_id.is_local())));
            let ga: Vec<J> = args.iter().map(|a| jstr(format!("{}", a))).collect();
            o.push(("generic_args".into(), J::Arr(ga)));
            // trait method?  record the trait and the Self type
            if let Some(tr) = tcx.trait_of_assoc(*def_id) {
                o.push(("decl_trait".into(), jstr(tcx.def_path_str(tr))));
                if let Some(st) = args.types().next() {
                    o.push(("self_ty".into(), jstr(ty_str(st))));
                }
            } else if let Some(imp) = tcx.impl_of_assoc(*def_id) {
                let st = tcx.type_of(imp).instantiate_identity().skip_norm_wip();
                o.push(("self_ty".into(), jstr(ty_str(st))));
                if let ty::Adt(a, _) = st.kind() {
                    o.push(("self_adt".into(), jstr(tcx.def_path_str(a.did()))));
                }
            }
            match Instance::try_resolve(tcx, env, *def_id, args) {
                Ok(Some(inst)) => {
                    let rid = inst.def_id();
                    let disp = match inst.def {
                        InstanceKind::Item(_) => "static",
                        InstanceKind::Virtual(..) => "virtual",
                        InstanceKind::Intrinsic(_) => "intrinsic",
                        InstanceKind::ClosureOnceShim { .. } => "closure_once_shim",
                        InstanceKind::FnPtrShim(..) => "fnptr_shim",
                        InstanceKind::DropGlue(..) => "drop_glue",
                        InstanceKind::CloneShim(..) => "clone_shim",
                        InstanceKind::ReifyShim(..) => "reify_shim",
                        InstanceKind::VTableShim(_) => "vtable_shim",
                        _ => "shim",
                    };
                    o.push(("dispatch".into(), jstr(disp)));
                    o.push(("resolved".into(), jstr(tcx.def_path_str(rid))));
                    o.push((
                        "resolved_full".into(),
                        jstr(tcx.def_path_str_with_args(rid, inst.args)),
                    ));
                    o.push(("resolved_local".into(), J::Bool(rid.is_local())));
                }
                _ => {
                    o.push(("dispatch".into(), jstr("unresolved")));
                }
            }
        }
        ty::FnPtr(..) => {
            o.push(("dispatch".into(), jstr("fnptr")));
            o.push(("func".into(), operand(tcx, env, body, func)));
        }
        _ => {
            o.push(("dispatch".into(), jstr("indirect")));
            o.push(("func".into(), operand(tcx, env, body, func)));
            o.push(("func_ty".into(), jstr(ty_str(fty))));
        }
    }
}

fn place<'tcx>(tcx: TyCtxt<'tcx>, body: &Body<'tcx>, p: &Place<'tcx>) -> J {
    let mut proj: Vec<J> = Vec::new();
    let mut pty = mir::PlaceTy::from_ty(body.local_decls[p.local].ty);
    for elem in p.projection.iter() {
        match elem {
            ProjectionElem::Deref => proj.push(jstr("*")),
            ProjectionElem::Field(f, _) => {
                let (name, owner) = match pty.ty.kind() {
                    ty::Adt(a, _) => {
                        let v = match pty.variant_index {
                            Some(v) => a.variant(v),
                            None if !a.is_enum() => a.non_enum_variant(),
                            None => a.variant(rustc_abi::VariantIdx::from_u32(0)),
                        };
                        (v.fields[f].name.to_string(), Some(tcx.def_path_str(a.did())))
                    }
                    _ => (format!("{}", f.as_u32()), None),
                };
                let mut fo = vec![("f".into(), jstr(name))];
                if let Some(ow) = owner {
                    fo.push(("adt".into(), jstr(ow)));
                }
                proj.push(J::Obj(fo));
            }
            ProjectionElem::Index(l) => {
                proj.push(J::Obj(vec![("idx".into(), J::Num(l.as_u32() as i128))]));
            }
            ProjectionElem::ConstantIndex { offset, from_end, .. } => {
                proj.push(J::Obj(vec![
                    ("ci".into(), J::Num(offset as i128)),
                    ("from_end".into(), J::Bool(from_end)),
                ]));
            }
            ProjectionElem::Subslice { from, to, from_end } => {
                proj.push(J::Obj(vec![
                    ("sub".into(), J::Arr(vec![J::Num(from as i128), J::Num(to as i128)])),
                    ("from_end".into(), J::Bool(from_end)),
                ]));
            }
            ProjectionElem::Downcast(_, vi) => {
                let name = match pty.ty.kind() {
                    ty::Adt(a, _) => a.variant(vi).name.to_string(),
                    _ => format!("{}", vi.as_u32()),
                };
                proj.push(J::Obj(vec![("as".into(), jstr(name))]));
            }
            _ => proj.push(jstr("opaque")),
        }
        pty = pty.projection_ty(tcx, elem);
    }
    J::Obj(vec![
        ("l".into(), J::Num(p.local.as_u32() as i128)),
        ("p".into(), J::Arr(proj)),
    ])
}

fn operand<'tcx>(
    tcx: TyCtxt<'tcx>,
    env: TypingEnv<'tcx>,
    body: &Body<'tcx>,
    op: &Operand<'tcx>,
) -> J {
    match op {
        Operand::Copy(p) => J::Obj(vec![("copy".into(), place(tcx, body, p))]),
        Operand::Move(p) => J::Obj(vec![("move".into(), place(tcx, body, p))]),
        Operand::Constant(c) => J::Obj(vec![("const".into(), constant(tcx, env, &c.const_))]),
        other => J::Obj(vec![(
            "const".into(),
            J::Obj(vec![
                ("kind".into(), jstr("runtime_checks")),
                ("text".into(), jstr(format!("{:?}", other))),
            ]),
        )]),
    }
}

fn constant<'tcx>(tcx: TyCtxt<'tcx>, env: TypingEnv<'tcx>, c: &Const<'tcx>) -> J {
    let ty = c.ty();
    if let ty::FnDef(def_id, args) = ty.kind() {
        let mut o = vec![
            ("kind".into(), jstr("fn")),
            ("path".into(), jstr(tcx.def_path_str(*def_id))),
            ("full".into(), jstr(tcx.def_path_str_with_args(*def_id, args))),
            ("local".into(), J::Bool(def_id.is_local())),
        ];
        if let Ok(Some(inst)) = Instance::try_resolve(tcx, env, *def_id, args) {
            if let InstanceKind::Item(rid) = inst.def {
                o.push(("resolved".into(), jstr(tcx.def_path_str(rid))));
                o.push(("resolved_local".into(), J::Bool(rid.is_local())));
            }
        }
        return J::Obj(o);
    }
    let mut extra: Vec<(String, J)> = Vec::new();
    if let Const::Unevaluated(uv, _) = c {
        extra.push(("item".into(), jstr(tcx.def_path_str(uv.def))));
        if let Some(p) = uv.promoted {
            extra.push(("promoted".into(), J::Num(p.as_u32() as i128)));
        }
    }
    let val: Option<ConstValue> = match c {
        Const::Val(v, _) => Some(*v),
        _ => c.eval(tcx, env, rustc_span::DUMMY_SP).ok(),
    };
    let mut out = match val {
        Some(v) => match const_value(tcx, v, ty) {
            J::Obj(o) => o,
            _ => Vec::new(),
        },
        None => vec![("kind".into(), jstr("unevaluated")), ("ty".into(), jstr(ty_str(ty)))],
    };
    out.extend(extra);
    J::Obj(out)
}

/// Typed walk over a constant allocation: arrays and tuples of integers, `&str` and function pointers (lookup tables).
fn decode_alloc<'tcx>(
    tcx: TyCtxt<'tcx>,
    ty: Ty<'tcx>,
    alloc: &mir::interpret::Allocation,
    off: rustc_abi::Size,
    depth: usize,
) -> Option<J> {
    use mir::interpret::{alloc_range, GlobalAlloc, Scalar};
    if depth > 4 {
        return None;
    }
    let env = TypingEnv::fully_monomorphized();
    let layout = tcx.layout_of(env.as_query_input(ty)).ok()?;
    let psize = tcx.data_layout.pointer_size();
    match ty.kind() {
        ty::Array(elem, len) => {
            let n = len.try_to_target_usize(tcx)? as u64;
            if n > 64 {
                return None;
            }
            let el = tcx.layout_of(env.as_query_input(*elem)).ok()?;
            let mut out = Vec::new();
            for i in 0..n {
                out.push(decode_alloc(tcx, *elem, alloc, off + el.size * i, depth + 1)?);
            }
            Some(J::Obj(vec![("tree".into(), jstr("array")), ("elems".into(), J::Arr(out))]))
        }
        ty::Tuple(tys) => {
            let mut out = Vec::new();
            for (i, fty) in tys.iter().enumerate() {
                let fo = layout.fields.offset(i);
                out.push(decode_alloc(tcx, fty, alloc, off + fo, depth + 1)?);
            }
            Some(J::Obj(vec![("tree".into(), jstr("tuple")), ("elems".into(), J::Arr(out))]))
        }
        ty::Ref(_, inner, _) if inner.is_str() => {
            let p = alloc.read_scalar(&tcx, alloc_range(off, psize), true).ok()?;
            let l = alloc.read_scalar(&tcx, alloc_range(off + psize, psize), false).ok()?;
            let len = match l { Scalar::Int(si) => si.to_bits(psize) as usize, _ => return None };
            if let Scalar::Ptr(ptr, _) = p {
                let (prov, poff) = ptr.into_raw_parts();
                if let Some(GlobalAlloc::Memory(a)) = tcx.try_get_global_alloc(prov.alloc_id()) {
                    let a = a.inner();
                    let st = poff.bytes() as usize;
                    if st + len <= a.len() && len <= 256 {
                        let bytes = a.inspect_with_uninit_and_ptr_outside_interpreter(st..st + len);
                        return Some(J::Obj(vec![
                            ("kind".into(), jstr("str")),
                            ("value".into(), jstr(String::from_utf8_lossy(bytes).to_string())),
                        ]));
                    }
                }
            }
            None
        }
        ty::FnPtr(..) => {
            let p = alloc.read_scalar(&tcx, alloc_range(off, psize), true).ok()?;
            if let Scalar::Ptr(ptr, _) = p {
                let (prov, _) = ptr.into_raw_parts();
                if let Some(GlobalAlloc::Function { instance }) = tcx.try_get_global_alloc(prov.alloc_id()) {
                    let did = instance.def_id();
                    return Some(J::Obj(vec![
                        ("kind".into(), jstr("fn")),
                        ("path".into(), jstr(tcx.def_path_str(did))),
                        ("local".into(), J::Bool(did.is_local())),
                    ]));
                }
            }
            None
        }
        ty::Uint(_) | ty::Int(_) | ty::Bool | ty::Char => {
            let s = alloc.read_scalar(&tcx, alloc_range(off, layout.size), false).ok()?;
            if let Scalar::Int(si) = s {
                return Some(const_value(tcx, ConstValue::Scalar(Scalar::Int(si)), ty));
            }
            None
        }
        _ => None,
    }
}

fn const_value<'tcx>(tcx: TyCtxt<'tcx>, v: ConstValue, ty: Ty<'tcx>) -> J {
    let tys = ty_str(ty);
    match v {
        ConstValue::Scalar(mir::interpret::Scalar::Int(si)) => {
            let size = si.size();
            match ty.kind() {
                ty::Bool => J::Obj(vec![
                    ("kind".into(), jstr("bool")),
                    ("value".into(), J::Bool(si.to_bits(size) != 0)),
                    ("ty".into(), jstr(tys)),
                ]),
                ty::Char => {
                    let b = si.to_bits(size) as u32;
                    J::Obj(vec![
                        ("kind".into(), jstr("char")),
                        ("value".into(), jstr(char::from_u32(b).map(|c| c.to_string()).unwrap_or_default())),
                        ("code".into(), J::Num(b as i128)),
                        ("ty".into(), jstr(tys)),
                    ])
                }
                ty::Int(_) => {
                    let bits = si.to_bits(size);
                    let sbits = size.bits() as u32;
                    let v: i128 = if sbits == 128 {
                        bits as i128
                    } else {
                        let shift = 128 - sbits;
                        ((bits << shift) as i128) >> shift
                    };
                    J::Obj(vec![
                        ("kind".into(), jstr("int")),
                        ("value".into(), J::Num(v)),
                        ("ty".into(), jstr(tys)),
                    ])
                }
                ty::Uint(_) => {
                    let bits = si.to_bits(size);
                    J::Obj(vec![
                        ("kind".into(), jstr("int")),
                        ("value".into(), if bits <= i128::MAX as u128 { J::Num(bits as i128) } else { jstr(bits.to_string()) }),
                        ("ty".into(), jstr(tys)),
                    ])
                }
                ty::Adt(a, _) if a.is_enum() => {
                    // fieldless enum constant
                    let bits = si.to_bits(size);
                    let mut name = String::new();
                    for (vi, d) in a.discriminants(tcx) {
                        if d.val == bits {
                            name = a.variant(vi).name.to_string();
                        }
                    }
                    J::Obj(vec![
                        ("kind".into(), jstr("enum")),
                        ("variant".into(), jstr(name)),
                        ("value".into(), J::Num(bits as i128)),
                        ("ty".into(), jstr(tys)),
                    ])
                }
                _ => J::Obj(vec![
                    ("kind".into(), jstr("scalar")),
                    ("value".into(), J::Num(si.to_bits(size) as i128)),
                    ("ty".into(), jstr(tys)),
                ]),
            }
        }
        ConstValue::Scalar(mir::interpret::Scalar::Ptr(ptr, _)) => {
            // e.g. &[u8; N] (format_args! templates), &'static T
            let (prov, off) = ptr.into_raw_parts();
            let alloc_id = prov.alloc_id();
            let mut o = vec![("kind".into(), jstr("ptr")), ("ty".into(), jstr(tys))];
            match tcx.try_get_global_alloc(alloc_id) {
                Some(mir::interpret::GlobalAlloc::Memory(a)) => {
                    let a = a.inner();
                    let len = a.len();
                    let start = off.bytes() as usize;
                    if start <= len && len - start <= 4096 {
                        let bytes = a.inspect_with_uninit_and_ptr_outside_interpreter(start..len);
                        o.push(("bytes".into(), J::Arr(bytes.iter().map(|b| J::Num(*b as i128)).collect())));
                        o.push(("has_ptrs".into(), J::Bool(!a.provenance().ptrs().is_empty())));
                    }
                    if let ty::Ref(_, inner, _) = ty.kind() {
                        if matches!(inner.kind(), ty::Array(..) | ty::Tuple(..)) {
                            if let Some(t) = decode_alloc(tcx, *inner, a, off, 0) {
                                o.push(("tree".into(), t));
                            }
                        }
                    }
                }
                Some(mir::interpret::GlobalAlloc::Static(did)) => {
                    o.push(("static".into(), jstr(tcx.def_path_str(did))));
                }
                Some(mir::interpret::GlobalAlloc::Function { instance }) => {
                    o.push(("fn".into(), jstr(tcx.def_path_str(instance.def_id()))));
                }
                _ => {}
            }
            J::Obj(o)
        }
        ConstValue::ZeroSized => J::Obj(vec![("kind".into(), jstr("zst")), ("ty".into(), jstr(tys))]),
        ConstValue::Slice { .. } => {
            let bytes = v.try_get_slice_bytes_for_diagnostics(tcx);
            match bytes {
                Some(b) => {
                    let is_str = matches!(ty.kind(), ty::Ref(_, inner, _) if inner.is_str());
                    if is_str {
                        J::Obj(vec![
                            ("kind".into(), jstr("str")),
                            ("value".into(), jstr(String::from_utf8_lossy(b).to_string())),
                            ("ty".into(), jstr(tys)),
                        ])
                    } else {
                        J::Obj(vec![
                            ("kind".into(), jstr("bytes")),
                            ("bytes".into(), J::Arr(b.iter().map(|x| J::Num(*x as i128)).collect())),
                            ("ty".into(), jstr(tys)),
                        ])
                    }
                }
                None => J::Obj(vec![("kind".into(), jstr("slice")), ("ty".into(), jstr(tys))]),
            }
        }
        ConstValue::Indirect { alloc_id, offset } => {
            let mut o = vec![("kind".into(), jstr("indirect")), ("ty".into(), jstr(tys))];
            if let Some(mir::interpret::GlobalAlloc::Memory(a)) = tcx.try_get_global_alloc(alloc_id) {
                let a = a.inner();
                let len = a.len();
                let start = offset.bytes() as usize;
                if start <= len && len - start <= 256 && a.provenance().ptrs().is_empty() {
                    let bytes = a.inspect_with_uninit_and_ptr_outside_interpreter(start..len);
                    o.push(("bytes".into(), J::Arr(bytes.iter().map(|b| J::Num(*b as i128)).collect())));
                }
                if matches!(ty.kind(), ty::Array(..) | ty::Tuple(..)) {
                    if let Some(t) = decode_alloc(tcx, ty, a, offset, 0) {
                        o.push(("tree".into(), t));
                    }
                }
            }
            J::Obj(o)
        }
    }
}

fn rvalue<'tcx>(
    tcx: TyCtxt<'tcx>,
    env: TypingEnv<'tcx>,
    body: &Body<'tcx>,
    rv: &Rvalue<'tcx>,
) -> J {
    match rv {
        Rvalue::Use(op, _) => J::Obj(vec![("k".into(), jstr("use")), ("a".into(), operand(tcx, env, body, op))]),
        Rvalue::Repeat(op, n) => J::Obj(vec![
            ("k".into(), jstr("repeat")),
            ("a".into(), operand(tcx, env, body, op)),
            ("n".into(), match n.try_to_target_usize(tcx) { Some(v) => J::Num(v as i128), None => J::Null }),
        ]),
        Rvalue::Ref(_, bk, p) => J::Obj(vec![
            ("k".into(), jstr("ref")),
            ("mut".into(), J::Bool(matches!(bk, BorrowKind::Mut { .. }))),
            ("place".into(), place(tcx, body, p)),
        ]),
        Rvalue::RawPtr(_, p) => J::Obj(vec![("k".into(), jstr("rawptr")), ("place".into(), place(tcx, body, p))]),
        Rvalue::ThreadLocalRef(d) => J::Obj(vec![("k".into(), jstr("tls")), ("static".into(), jstr(tcx.def_path_str(*d)))]),
        Rvalue::Cast(kind, op, ty) => {
            let ks = match kind {
                CastKind::IntToInt => "IntToInt".to_string(),
                CastKind::PointerCoercion(pc, _) => format!("PointerCoercion({:?})", pc),
                other => format!("{:?}", other),
            };
            J::Obj(vec![
                ("k".into(), jstr("cast")),
                ("kind".into(), jstr(ks)),
                ("a".into(), operand(tcx, env, body, op)),
                ("from".into(), jstr(ty_str(op.ty(&body.local_decls, tcx)))),
                ("to".into(), jstr(ty_str(*ty))),
            ])
        }
        Rvalue::BinaryOp(op, b) => {
            let (a1, a2) = &**b;
            J::Obj(vec![
                ("k".into(), jstr("bin")),
                ("op".into(), jstr(format!("{:?}", op))),
                ("a".into(), operand(tcx, env, body, a1)),
                ("b".into(), operand(tcx, env, body, a2)),
                ("ty".into(), jstr(ty_str(a1.ty(&body.local_decls, tcx)))),
            ])
        }
        Rvalue::UnaryOp(op, a) => J::Obj(vec![
            ("k".into(), jstr("un")),
            ("op".into(), jstr(format!("{:?}", op))),
            ("a".into(), operand(tcx, env, body, a)),
            ("ty".into(), jstr(ty_str(a.ty(&body.local_decls, tcx)))),
        ]),
        Rvalue::Discriminant(p) => {
            let pty = p.ty(&body.local_decls, tcx).ty;
            let mut o = vec![("k".into(), jstr("discr")), ("place".into(), place(tcx, body, p)), ("ty".into(), jstr(ty_str(pty)))];
            if let ty::Adt(a, _) = pty.kind() {
                if a.is_enum() {
                    o.push(("adt".into(), jstr(tcx.def_path_str(a.did()))));
                    let mut m: Vec<(String, J)> = Vec::new();
                    for (vi, d) in a.discriminants(tcx) {
                        m.push((format!("{}", d.val), jstr(a.variant(vi).name.to_string())));
                    }
                    o.push(("variants".into(), J::Obj(m)));
                }
            }
            J::Obj(o)
        }
        Rvalue::Aggregate(kind, fields) => {
            let mut o: Vec<(String, J)> = vec![("k".into(), jstr("agg"))];
            match &**kind {
                AggregateKind::Array(t) => {
                    o.push(("agg".into(), jstr("array")));
                    o.push(("elem_ty".into(), jstr(ty_str(*t))));
                }
                AggregateKind::Tuple => o.push(("agg".into(), jstr("tuple"))),
                AggregateKind::Adt(did, vi, _, _, active) => {
                    let a = tcx.adt_def(*did);
                    o.push(("agg".into(), jstr("adt")));
                    o.push(("adt".into(), jstr(tcx.def_path_str(*did))));
                    o.push(("adt_local".into(), J::Bool(did.is_local())));
                    o.push(("variant".into(), jstr(a.variant(*vi).name.to_string())));
                    let names: Vec<J> = match active {
                        Some(f) => vec![jstr(a.variant(*vi).fields[*f].name.to_string())],
                        None => a.variant(*vi).fields.iter().map(|f| jstr(f.name.to_string())).collect(),
                    };
                    o.push(("field_names".into(), J::Arr(names)));
                }
                AggregateKind::Closure(did, _) => {
                    o.push(("agg".into(), jstr("closure")));
                    o.push(("closure".into(), jstr(tcx.def_path_str(*did))));
                }
                AggregateKind::Coroutine(did, _) | AggregateKind::CoroutineClosure(did, _) => {
                    o.push(("agg".into(), jstr("coroutine")));
                    o.push(("closure".into(), jstr(tcx.def_path_str(*did))));
                }
                AggregateKind::RawPtr(..) => o.push(("agg".into(), jstr("rawptr"))),
            }
            o.push(("fields".into(), J::Arr(fields.iter().map(|f| operand(tcx, env, body, f)).collect())));
            J::Obj(o)
        }
        Rvalue::CopyForDeref(p) => J::Obj(vec![
            ("k".into(), jstr("use")),
            ("a".into(), J::Obj(vec![("copy".into(), place(tcx, body, p))])),
        ]),
        other => J::Obj(vec![("k".into(), jstr("other")), ("text".into(), jstr(format!("{:?}", other)))]),
    }
}
