// Minimal JSON value + writer (no dependencies).
pub enum J {
    Null,
    Bool(bool),
    Num(i128),
    Str(String),
    Arr(Vec<J>),
    Obj(Vec<(String, J)>),
}

fn esc(s: &str, out: &mut String) {
    out.push('"');
    for c in s.chars() {
        match c {
            '"' => out.push_str("\\\""),
            '\\' => out.push_str("\\\\"),
            '\n' => out.push_str("\\n"),
            '\r' => out.push_str("\\r"),
            '\t' => out.push_str("\\t"),
            c if (c as u32) < 0x20 => out.push_str(&format!("\\u{:04x}", c as u32)),
            c => out.push(c),
        }
    }
    out.push('"');
}

impl J {
    pub fn write(&self, out: &mut String) {
        match self {
            J::Null => out.push_str("null"),
            J::Bool(b) => out.push_str(if *b { "true" } else { "false" }),
            J::Num(n) => out.push_str(&n.to_string()),
            J::Str(s) => esc(s, out),
            J::Arr(a) => {
                out.push('[');
                for (i, v) in a.iter().enumerate() {
                    if i > 0 {
                        out.push(',');
                    }
                    v.write(out);
                }
                out.push(']');
            }
            J::Obj(o) => {
                out.push('{');
                for (i, (k, v)) in o.iter().enumerate() {
                    if i > 0 {
                        out.push(',');
                    }
                    esc(k, out);
                    out.push(':');
                    v.write(out);
                }
                out.push('}');
            }
        }
    }
}
