use log::{Level, Record};
use log4rs::{
    append::{
        rolling_file::{
            policy::compound::{roll::fixed_window::FixedWindowRoller, trigger::size::SizeTrigger, CompoundPolicy},
            RollingFileAppender,
        },
        Append,
    },
    encode::pattern::PatternEncoder,
};
use std::fs;

fn rec<'a>(args: std::fmt::Arguments<'a>) -> Record<'a> {
    Record::builder().level(Level::Info).args(args).build()
}

#[test]
fn d6_failed_roll_then_reopen_must_not_truncate_acknowledged_records() {
    let dir = tempfile::tempdir().unwrap();
    let d = dir.path();
    // the archive slot is obstructed: pattern(0) is a non-empty directory, so the roll fails
    fs::create_dir_all(d.join("a.0.log").join("occupied")).unwrap();
    let roller = FixedWindowRoller::builder().build(d.join("a.{}.log").to_str().unwrap(), 1).unwrap();
    let policy = CompoundPolicy::new(Box::new(SizeTrigger::new(10)), Box::new(roller));
    let app = RollingFileAppender::builder()
        .append(false)
        .encoder(Box::new(PatternEncoder::new("{m}{n}")))
        .build(d.join("a.log"), Box::new(policy))
        .unwrap();
    app.append(&rec(format_args!("first"))).unwrap(); // acknowledged, 6 bytes <= limit
    assert!(app.append(&rec(format_args!("second-long-record"))).is_err()); // roll fails
    let _ = app.append(&rec(format_args!("third")));
    let content = fs::read_to_string(d.join("a.log")).unwrap();
    assert!(content.starts_with("first\n"), "acknowledged record lost; active file is {:?}", content);
}
