// D10 — a date format that chrono parses but cannot display: `{d(%#z)}`.
// Before b404dd9 the pattern compiled (the D1 check only looked for parse errors) and every
// record panicked inside the appender: "a formatting trait implementation returned an error".
// Put this file under tests/ of the repository and run `cargo test --offline --test demo_d10`.
use log::{Level, Record};
use log4rs::encode::{pattern::PatternEncoder, writer::simple::SimpleWriter, Encode};

#[test]
fn parse_only_strftime_item_is_reported_not_panicked() {
    let enc = PatternEncoder::new("{d(%#z)}");
    let mut buf = vec![];
    enc.encode(
        &mut SimpleWriter(&mut buf),
        &Record::builder().level(Level::Info).args(format_args!("m")).build(),
    )
    .unwrap();
    assert_eq!(String::from_utf8_lossy(&buf), "{ERROR: invalid date format `%#z`}");
}
