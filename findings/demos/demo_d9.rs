// A failing final move in rotate() must surface as an error from roll(), even
// when stdout is a closed pipe (run as: demo_d9 | true).
use log4rs::append::rolling_file::policy::compound::roll::{fixed_window::FixedWindowRoller, Roll};
use std::{fs, io::Write};
fn main() {
    let dir = std::env::temp_dir().join(format!("l4rs-d9-{}", std::process::id()));
    fs::create_dir_all(dir.join("arch.0").join("occupied")).unwrap(); // pattern(0) is a non-empty directory
    let file = dir.join("foo.log");
    fs::File::create(&file).unwrap().write_all(b"data").unwrap();
    let roller = FixedWindowRoller::builder().build(&format!("{}/arch.{{}}", dir.display()), 1).unwrap();
    std::thread::sleep(std::time::Duration::from_millis(300)); // let the reader side of the pipe go away
    let r = std::panic::catch_unwind(|| roller.roll(&file));
    let _ = writeln!(std::io::stderr(), "roll returned: {:?}", r.as_ref().map(|x| x.is_err()));
    let _ = fs::remove_dir_all(&dir);
    std::process::exit(if matches!(r, Ok(Err(_))) { 0 } else { 1 });
}
