use log::{Level, Record};
use log4rs::encode::{pattern::PatternEncoder, writer::simple::SimpleWriter, Encode};

fn enc(pat: &str) -> String {
    let e = PatternEncoder::new(pat);
    let mut buf = vec![];
    e.encode(
        &mut SimpleWriter(&mut buf),
        &Record::builder().level(Level::Info).args(format_args!("hi")).build(),
    )
    .unwrap();
    String::from_utf8(buf).unwrap()
}

#[test]
fn d1_invalid_strftime_does_not_panic() {
    let out = enc("a{d(%Q)}b");
    assert!(out.starts_with("a") && out.ends_with("b"), "{}", out);
    assert!(out.contains("{ERROR: "), "{}", out);
}

#[test]
fn d2_absurd_width_does_not_panic() {
    let out = enc("x{m:99999999999999999999999}y{l}");
    assert!(out.starts_with("x") && out.contains("{ERROR: ") && out.ends_with("yINFO"), "{}", out);
}
