// stdout is a pipe here; a tty_only console appender must stay silent whatever the colour settings are.
use log::LevelFilter;
use log4rs::{
    append::console::ConsoleAppender,
    config::{Appender, Config, Root},
    encode::pattern::PatternEncoder,
};
fn main() {
    let a = ConsoleAppender::builder()
        .tty_only(true)
        .encoder(Box::new(PatternEncoder::new("LEAK {m}{n}")))
        .build();
    let c = Config::builder()
        .appender(Appender::builder().build("a", Box::new(a)))
        .build(Root::builder().appender("a").build(LevelFilter::Info))
        .unwrap();
    log4rs::init_config(c).unwrap();
    log::info!("hello");
}
