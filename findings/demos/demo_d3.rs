use log4rs::encode::{writer::ansi::AnsiWriter, Color, Style, Write};

#[test]
fn d3_longest_sgr_sequence_fits() {
    let mut buf = vec![];
    {
        let mut w = AnsiWriter(&mut buf);
        w.set_style(Style::new().text(Color::Red).background(Color::Blue).intense(false)).unwrap();
    }
    assert_eq!(buf, b"\x1b[0;31;44;22m");
}
