use log4rs::append::rolling_file::policy::compound::roll::{fixed_window::FixedWindowRoller, Roll};
use std::{fs::File, io::Write};

#[test]
fn d7_window_that_does_not_fit_in_u32_is_an_error_not_a_panic() {
    let dir = tempfile::tempdir().unwrap();
    let base = dir.path().to_str().unwrap();
    let roller = FixedWindowRoller::builder()
        .base(u32::MAX)
        .build(&format!("{}/foo.log.{{}}", base), 2)
        .unwrap();
    let file = dir.path().join("foo.log");
    File::create(&file).unwrap().write_all(b"file1").unwrap();
    // must not panic ("attempt to add with overflow"); an Err is fine
    let r = roller.roll(&file);
    assert!(r.is_err(), "{:?}", r);
    assert!(file.exists());
}
