use log4rs::append::rolling_file::policy::compound::trigger::time::TimeTriggerInterval;

#[test]
fn d8_u64_interval_above_i64_max_is_rejected() {
    // 18446744073709551615 does not fit in an i64: it must be an error, not Second(-1)
    let r: Result<TimeTriggerInterval, _> = serde_yaml::from_str("18446744073709551615");
    assert!(r.is_err(), "parsed as {:?}", r);
    let ok: TimeTriggerInterval = serde_yaml::from_str("9223372036854775807").unwrap();
    assert_eq!(ok, TimeTriggerInterval::Second(i64::MAX));
}
