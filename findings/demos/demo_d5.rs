use log4rs::append::rolling_file::policy::compound::trigger::time::{TimeTrigger, TimeTriggerConfig};

#[test]
fn d5_zero_interval_with_modulate_must_not_panic() {
    let cfg: TimeTriggerConfig = serde_yaml::from_str("interval: 0 seconds\nmodulate: true").unwrap();
    let _ = TimeTrigger::new(cfg); // panics: attempt to calculate the remainder with a divisor of zero
}

#[test]
fn d5_huge_interval_must_not_panic() {
    let cfg: TimeTriggerConfig = serde_yaml::from_str("interval: 99999999999999 weeks").unwrap();
    let _ = TimeTrigger::new(cfg); // panics inside chrono::Duration::weeks (out of range)
}
